"""Check driver: runs the static rules of one property on /repo's current tree, writes the
evidence file, replay files and the VIOLATION / KNOWN-FINDING lines required by the brief."""
import hashlib
import importlib
import json
import os
import sys
import time
import traceback

sys.path.insert(0, os.path.dirname(os.path.abspath(__file__)))
import facts as FX  # noqa: E402
import exec as E  # noqa: E402
import summaries  # noqa: E402

VERIF = FX.VERIF


class Run:
    """what a rule sees: fact files per configuration, obligations, violations, samples."""

    def __init__(self, prop, tier):
        self.prop = prop
        self.tier = tier
        self.configs = FX.THOROUGH_CONFIGS if tier == "thorough" else FX.QUICK_CONFIGS
        self.obligations = []      # {"key","ok","rule","detail"}
        self.violations = []       # {"key","rule","msg","where","detail"}
        self.samples = []
        self.counts = {}
        self.analysed = {"configs": [], "functions": set(), "entries": []}
        self.notes = []
        self.unknown_calls = {}   # summary key of an unmodelled external callee -> entries whose cone reaches it
        self.explanation = ""
        self.level = "other"
        self.trusted = []
        self.assumptions = []

    # ---- facts / interpreter
    def facts(self, config):
        F = FX.load(config)
        tag = "%s(bodies=%d)" % (config, len(F.bodies))
        if tag not in self.analysed["configs"]:
            self.analysed["configs"].append(tag)
        return F

    def executor(self, F):
        return E.Executor(F, summaries.Summaries())

    def run_entry(self, ex, rec, **kw):
        res = ex.run_entry(rec, **kw)
        for n in res.notes:
            if n.get("what") == "unknown_call":
                if n.get("effects", True):
                    self.unknown_calls.setdefault(n.get("key") or n.get("callee"), set()).add(rec["pretty"])
                else:
                    note = "opaque pure external call (plain-value arguments, result unknown): %s" % (n.get("key") or n.get("callee"))
                    if note not in self.notes:
                        self.notes.append(note)
        self.analysed["functions"] |= res.cone
        self.analysed["entries"].append("%s[%s]" % (rec["pretty"], ex.F.config))
        return res

    # ---- recording
    def ob(self, rule, key, ok, detail="", where=None, sample=None):
        """an obligation of a rule instance; a failed one is a violation"""
        self.obligations.append({"rule": rule, "key": key, "ok": bool(ok), "detail": str(detail)[:600]})
        if sample is not None and len(self.samples) < 40:
            self.samples.append(sample)
        if not ok:
            self.violation(rule, key, detail, where)
        return ok

    def violation(self, rule, key, msg, where=None, detail=None):
        if any(v["key"] == key for v in self.violations):
            return
        self.violations.append({"rule": rule, "key": key, "msg": str(msg)[:2000], "where": where, "detail": detail})

    def floor(self, name, count, minimum):
        """fail closed when a rule matches fewer instances than counted on the pinned tree"""
        self.counts[name] = count
        if count < minimum:
            self.violation("FLOOR", "floor|%s" % name,
                           "UNDECIDED(instance count %d of '%s' is below the confirmed floor %d: an anchor is gone)"
                           % (count, name, minimum))

    def undecided(self, rule, key, why, where=None):
        self.violation(rule, key, "UNDECIDED(%s)" % why, where)

    def witnesses(self, prefix, rule):
        """thorough tier: compile-level witnesses (compile_fail doc-tests with compiling twins) whose
        name starts with `prefix`; the compiler's verdict is the obligation."""
        if self.tier != "thorough":
            return
        import subprocess
        r = subprocess.run([os.path.join(VERIF, "bin", "witness")], capture_output=True, text=True)
        lines = [l for l in r.stdout.splitlines() if l.startswith("test ") and (" - %s " % prefix) in l]
        if not lines:
            self.undecided(rule, "witness|%s|missing" % prefix, "no witness doc-test for %s ran: %s" % (prefix, (r.stdout + r.stderr)[-400:]))
            return
        for l in lines:
            name = l.split(" ... ")[0].replace("test src/lib.rs - ", "")
            kind = "compile_fail" if "compile fail" in name else "twin-compiles"
            key = "witness|%s|%s" % (prefix, kind)
            n = sum(1 for o in self.obligations if o["key"].startswith(key))
            self.ob(rule, "%s#%d" % (key, n), l.rstrip().endswith("ok"),
                    "compile-level witness '%s' did not behave as required: %s" % (name, l), sample={"witness": name, "verdict": l.split(" ... ")[-1]})

    def sample(self, s):
        if len(self.samples) < 40:
            self.samples.append(s)

    # ---- parallel case splits (one process per case; results merged in order)
    def export(self):
        return {"obligations": self.obligations, "violations": self.violations, "samples": self.samples, "counts": self.counts,
                "analysed": {"configs": self.analysed["configs"], "functions": sorted(self.analysed["functions"]), "entries": self.analysed["entries"]},
                "notes": self.notes, "unknown_calls": {k: sorted(v) for k, v in self.unknown_calls.items()}}

    def absorb(self, d):
        for k, v in d.get("unknown_calls", {}).items():
            self.unknown_calls.setdefault(k, set()).update(v)
        have = set((o["rule"], o["key"]) for o in self.obligations)
        for o in d["obligations"]:
            if (o["rule"], o["key"]) not in have:
                have.add((o["rule"], o["key"]))
                self.obligations.append(o)
        for v in d["violations"]:
            self.violation(v["rule"], v["key"], v["msg"], v["where"], v.get("detail"))
        for s_ in d["samples"]:
            self.sample(s_)
        self.counts.update(d["counts"])
        for c in d["analysed"]["configs"]:
            if c not in self.analysed["configs"]:
                self.analysed["configs"].append(c)
        self.analysed["functions"] |= set(d["analysed"]["functions"])
        self.analysed["entries"].extend(d["analysed"]["entries"])
        for n in d["notes"]:
            if n not in self.notes:
                self.notes.append(n)

    def parallel(self, modname, fname, items, jobs=None):
        """run rules.<modname>.<fname>(R_sub, item) for every item in forked worker processes"""
        import multiprocessing as mp
        for c in self.configs:
            self.facts(c)          # extract / load once in the parent (inherited by fork)
        jobs = jobs or min(len(items), int(os.environ.get("VERIF_JOBS", "0")) or (os.cpu_count() or 4))
        if jobs <= 1 or len(items) <= 1:
            for it in items:
                self.absorb(_run_task((modname, fname, self.prop, self.tier, it)))
            return
        ctx = mp.get_context("fork")
        with ctx.Pool(jobs) as pool:
            for d in pool.map(_run_task, [(modname, fname, self.prop, self.tier, it) for it in items], chunksize=1):
                self.absorb(d)


def _run_task(args):
    modname, fname, prop, tier, item = args
    R = Run(prop, tier)
    mod = importlib.import_module("rules.%s" % modname)
    try:
        getattr(mod, fname)(R, item)
    except (E.Undecided, FX.FactsError) as e:
        R.undecided("ENGINE", "engine|%s|%s" % (type(e).__name__, item), "%s" % (str(e)[:500],))
    except Exception as e:
        R.undecided("ENGINE", "engine|crash|%s" % (item,), "checker crashed: %s\n%s" % (e, traceback.format_exc()[-1500:]))
    return R.export()


def span_str(sp):
    if not sp:
        return None
    return "%s:%s" % (sp.get("file"), sp.get("line"))


def load_known():
    known, fixed = {}, []
    p = os.path.join(VERIF, "known_findings.txt")
    if os.path.exists(p):
        for line in open(p):
            line = line.strip()
            if not line or line.startswith("#"):
                continue
            if line.startswith("known:"):
                parts = line[len("known:"):].strip().split(None, 2)
                d = dict(x.split("=", 1) for x in parts[:2])
                known[(d["property"], d["key"])] = parts[2] if len(parts) > 2 else ""
            elif line.startswith("fixed:"):
                fixed.append(line)
    return known, fixed


def main(argv):
    if len(argv) < 2:
        print("usage: check <property-id> [--tier quick|thorough] [--replay path]")
        return 2
    prop = argv[1]
    tier = os.environ.get("VERIF_TIER", "quick")
    replay = None
    i = 2
    while i < len(argv):
        if argv[i] == "--tier":
            tier = argv[i + 1]
            i += 2
        elif argv[i] == "--replay":
            replay = argv[i + 1]
            i += 2
        else:
            i += 1
    if tier not in ("quick", "thorough"):
        tier = "quick"
    seed = int(os.environ.get("VERIF_SEED", "0") or 0)
    t0 = time.time()
    R = Run(prop, tier)
    mod = importlib.import_module("rules.%s" % prop)
    R.level = getattr(mod, "LEVEL", "other")
    try:
        mod.run(R)
    except (E.Undecided, FX.FactsError) as e:
        R.undecided("ENGINE", "engine|%s" % type(e).__name__, "%s" % (str(e)[:500],))
    except Exception as e:  # a crash of the checker must never read as "property holds"
        tb = traceback.format_exc()
        R.undecided("ENGINE", "engine|crash", "checker crashed: %s\n%s" % (e, tb[-1500:]))

    # an external function without a contract in summaries.py is opaque. If it is handed a mutable reference, a closure
    # or an object of an abstract type, whatever it does with them (hardware operations included) is invisible to every
    # rule whose cone reaches it, so no rule may pass over it. A function of plain values can only compute its result,
    # which the interpreter treats as a fresh unknown: rules that need the value fail on their own, the others are
    # unaffected; those calls are listed in the evidence notes.
    for k, v in sorted(R.unknown_calls.items()):
        R.undecided("ENGINE", "engine|unmodelled-call|%s" % k,
                    "the code analysed for this property calls %s, for which the interpreter has no contract (reached from %s): "
                    "its effect is opaque, the rule cannot be decided" % (k, ", ".join(sorted(v)[:3])))
    # every rule that has instances on the pinned tree (spec/rule_inventory.json) must still find at least one: a rule
    # that selects its sites by some pattern and finds none would otherwise pass vacuously
    by_rule = {}
    for o in R.obligations:
        by_rule[o["rule"]] = by_rule.get(o["rule"], 0) + 1
    try:
        with open(os.path.join(VERIF, "spec", "rule_inventory.json")) as fh:
            inventory = json.load(fh).get(prop, {}).get(tier, {})
    except (OSError, ValueError):
        inventory = None
    if inventory is None or (not inventory and not os.environ.get("VERIF_WRITE_INVENTORY")):
        R.undecided("FLOOR", "floor|rule-inventory", "spec/rule_inventory.json has no entry for %s/%s" % (prop, tier))
    elif not any(v["rule"] == "ENGINE" for v in R.violations):
        for rule, n in sorted(inventory.items()):
            if n >= 1 and by_rule.get(rule, 0) == 0:
                R.undecided("FLOOR", "floor|rule|%s" % rule,
                            "rule %s has %d instance(s) on the pinned tree and none here: the construct it examines is gone or "
                            "no longer recognised, so the clause it decides is not covered" % (rule, n))
    if os.environ.get("VERIF_WRITE_INVENTORY"):
        with open(os.environ["VERIF_WRITE_INVENTORY"], "a") as fh:
            fh.write(json.dumps({"prop": prop, "tier": tier, "rules": by_rule}) + "\n")
    known, fixed = load_known()
    ev_dir = os.environ.get("VERIF_EVIDENCE_DIR") or os.path.join(VERIF, "evidence")
    rp_dir = os.path.join(os.path.dirname(ev_dir), "replay") if os.environ.get("VERIF_EVIDENCE_DIR") else os.path.join(VERIF, "replay")
    os.makedirs(ev_dir, exist_ok=True)
    os.makedirs(rp_dir, exist_ok=True)
    new_violations = []
    lines = []
    for v in R.violations:
        kk = (prop, v["key"])
        if replay is not None:
            try:
                want = json.load(open(replay)).get("key")
            except Exception:
                want = None
            if want is not None and v["key"] != want:
                continue
        if kk in known:
            lines.append("KNOWN-FINDING: property=%s key=%s %s" % (prop, v["key"], known[kk]))
            continue
        h = hashlib.sha256(v["key"].encode()).hexdigest()[:12]
        path = os.path.join(rp_dir, "%s-%s.json" % (prop, h))
        with open(path, "w") as f:
            json.dump({"property": prop, "key": v["key"], "rule": v["rule"], "message": v["msg"], "where": v["where"],
                       "detail": v.get("detail"), "tier": tier,
                       "how_to_replay": "bin/check %s --replay %s" % (prop, path)}, f, indent=1, default=str)
        new_violations.append((v, path))
    n_ob = len(R.obligations)
    n_ok = sum(1 for o in R.obligations if o["ok"])
    level = R.level
    if new_violations and level == "proof":
        pass
    cov = {
        "obligations": n_ob,
        "discharged": n_ok,
        "checker_cmd": "bin/check %s --tier %s" % (prop, tier),
        "trusted_base": R.trusted,
        "explanation": R.explanation,
        "evaluations": max(n_ob, 1),
        "distinct_nontrivial": len(set(o["key"] for o in R.obligations)),
        "rule": "one obligation per rule instance (rule | function | instance descriptor); distinct = distinct keys",
        "samples": R.samples[:40] if R.samples else [o for o in R.obligations[:10]],
        "configs": R.analysed["configs"],
        "entry_points": R.analysed["entries"][:200],
        "functions_in_cone": len(R.analysed["functions"]),
        "instance_counts": R.counts,
        "obligations_by_rule": {},
        "exhaustive": True,
        "violations": [{"key": v["key"], "rule": v["rule"], "msg": v["msg"][:300], "where": v["where"]} for v, _ in new_violations][:50],
        "known_findings_reported": [l for l in lines],
        "notes": R.notes[:50],
    }
    for o in R.obligations:
        d = cov["obligations_by_rule"].setdefault(o["rule"], [0, 0])
        d[0] += 1
        d[1] += 1 if o["ok"] else 0
    ev = {
        "property_id": prop,
        "tier": tier,
        "seed": seed,
        "level": level,
        "coverage": cov,
        "assumptions": R.assumptions,
        "wall_s": round(time.time() - t0, 3),
        "violations": len(new_violations),
    }
    with open(os.path.join(ev_dir, "%s.json" % prop), "w") as f:
        json.dump(ev, f, indent=1, default=str)
    print("%s tier=%s configs=%s entries=%d functions=%d obligations=%d discharged=%d wall=%.1fs" % (
        prop, tier, ",".join(R.analysed["configs"]), len(R.analysed["entries"]), len(R.analysed["functions"]), n_ob, n_ok,
        time.time() - t0))
    for r, (a, b) in sorted(cov["obligations_by_rule"].items()):
        print("  rule %-28s %d/%d" % (r, b, a))
    for l in lines:
        print(l)
    for v, path in new_violations:
        print("  violated: [%s] %s :: %s  @%s" % (v["rule"], v["key"][:160], v["msg"][:300], v["where"]))
        print("VIOLATION property=%s replay=%s" % (prop, path))
    return 1 if new_violations else 0


if __name__ == "__main__":
    sys.exit(main(sys.argv))
