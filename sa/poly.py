"""Integer polynomials over symbolic atoms: the arithmetic / boolean core of the abstract
interpreter.

A Poly is a canonical multilinear-in-boolean-atoms integer polynomial.  It serves as
  * affine / polynomial form over the inputs (domain A of DESIGN.md),
  * canonical representation of boolean functions (0/1-valued polynomials; bit b of a
    symbolic integer is a boolean atom) -- the bit-sliced domain B,
  * enum-variant indicators (domain K for unknown enums).

Atoms are tuples whose first element is a kind tag:
  ('i', name, bits, signed)   symbolic integer with the range of its type
  ('r', name, lo, hi)         symbolic integer with an explicit range
  ('bit', atom, k)            bit k of integer atom (boolean)
  ('b', name)                 boolean symbol
  ('var', name, v, n)         "enum symbol `name` (n variants) is variant v", v >= 1 (boolean;
                              distinct variants of one symbol multiply to 0; variant 0 is
                              1 - sum of the others)
  ('ge', key)                 truth of (poly with key) >= 0 (boolean)
  ('eq', key)                 truth of (poly with key) == 0 (boolean)
  ('t', name, args...)        opaque term (integer of unknown range unless registered)
"""
from functools import reduce
from math import gcd

BOOL_KINDS = ("bit", "b", "var", "ge", "eq")

_atom_range = {}  # explicit ranges registered for 't' atoms


def register_range(atom, lo, hi):
    _atom_range[atom] = (lo, hi)


def is_bool_atom(a):
    return a[0] in BOOL_KINDS


def atom_range(a):
    k = a[0]
    if k in BOOL_KINDS:
        return (0, 1)
    if k == "i":
        bits, signed = a[2], a[3]
        if signed:
            return (-(1 << (bits - 1)), (1 << (bits - 1)) - 1)
        return (0, (1 << bits) - 1)
    if k == "r":
        return (a[2], a[3])
    if a in _atom_range:
        return _atom_range[a]
    return (None, None)


def _akey(a):
    return repr(a)


def _mono_mul(m1, m2):
    """product of two monomials (sorted tuples of atoms); None if identically zero."""
    if not m1:
        return m2
    if not m2:
        return m1
    s = list(m1)
    for a in m2:
        if is_bool_atom(a) and a in s:
            continue  # idempotent
        s.append(a)
    # distinct variants of one enum symbol exclude each other
    seen = {}
    for a in s:
        if a[0] == "var":
            if a[1] in seen and seen[a[1]] != a[2]:
                return None
            seen[a[1]] = a[2]
    s.sort(key=_akey)
    return tuple(s)


class Poly:
    __slots__ = ("terms", "_key", "_atoms", "_lin")

    def __init__(self, terms=None):
        self.terms = {m: c for m, c in (terms or {}).items() if c != 0}
        self._key = None
        self._atoms = None
        self._lin = None

    # ---------------------------------------------------------------- constructors
    @staticmethod
    def const(c):
        return Poly({(): int(c)})

    @staticmethod
    def atom(a):
        return Poly({(a,): 1})

    # ---------------------------------------------------------------- basics
    def key(self):
        if self._key is None:
            self._key = tuple(sorted(((m, c) for m, c in self.terms.items()), key=lambda mc: repr(mc[0])))
        return self._key

    def __hash__(self):
        return hash(self.key())

    def __eq__(self, other):
        return isinstance(other, Poly) and self.terms == other.terms

    def is_const(self):
        return all(m == () for m in self.terms)

    def const_value(self):
        if self.is_const():
            return self.terms.get((), 0)
        return None

    def atoms(self):
        if self._atoms is None:
            s = set()
            for m in self.terms:
                s.update(m)
            self._atoms = frozenset(s)
        return self._atoms

    def is_atom(self):
        """the atom if this poly is exactly one atom with coefficient 1, else None"""
        if len(self.terms) == 1:
            (m, c), = self.terms.items()
            if c == 1 and len(m) == 1:
                return m[0]
        return None

    def is_linear(self):
        if self._lin is None:
            self._lin = all(len(m) <= 1 for m in self.terms)
        return self._lin

    def degree(self):
        return max([len(m) for m in self.terms] or [0])

    def __add__(self, o):
        if not isinstance(o, Poly):
            o = Poly.const(o)
        t = dict(self.terms)
        for m, c in o.terms.items():
            t[m] = t.get(m, 0) + c
        return Poly(t)

    __radd__ = __add__

    def __neg__(self):
        return Poly({m: -c for m, c in self.terms.items()})

    def __sub__(self, o):
        if not isinstance(o, Poly):
            o = Poly.const(o)
        return self + (-o)

    def __rsub__(self, o):
        return Poly.const(o) - self

    def __mul__(self, o):
        if not isinstance(o, Poly):
            o = Poly.const(o)
        t = {}
        for m1, c1 in self.terms.items():
            for m2, c2 in o.terms.items():
                m = _mono_mul(m1, m2)
                if m is None:
                    continue
                t[m] = t.get(m, 0) + c1 * c2
        return Poly(t)

    __rmul__ = __mul__

    def scale_div(self, d):
        """exact division by integer d (all coefficients divisible), else None"""
        if any(c % d for c in self.terms.values()):
            return None
        return Poly({m: c // d for m, c in self.terms.items()})

    # ---------------------------------------------------------------- substitution
    def subst(self, mapping):
        """mapping: atom -> Poly (or int). Atoms not in the mapping stay."""
        if not mapping:
            return self
        if not (self.atoms() & set(mapping)):
            return self
        res = Poly()
        for m, c in self.terms.items():
            p = Poly.const(c)
            for a in m:
                if a in mapping:
                    v = mapping[a]
                    p = p * (v if isinstance(v, Poly) else Poly.const(v))
                else:
                    p = p * Poly.atom(a)
            res = res + p
        return res

    # ---------------------------------------------------------------- ranges
    def range(self, facts=None):
        """interval [lo, hi] (None = unbounded): interval arithmetic over the atoms, after a
        case split over (at most 4) boolean atoms that multiply non-boolean ones (if-then-else
        shaped polynomials)."""
        ats = self.atoms()
        vsyms = [a[1] for a in ats if a[0] == "var"]
        if len(set(vsyms)) < len(vsyms) and all(len(m) == 1 for m in self.terms if any(a[0] == "var" for a in m)):
            # the variant atoms of one enum value exclude each other: where they occur linearly, each group
            # contributes one of its coefficients (or 0: the variant that has no atom), not their sum
            rest = Poly({m: c for m, c in self.terms.items() if not (len(m) == 1 and m[0][0] == "var")})
            lo, hi = rest.range(facts) if rest.terms else (0, 0)
            groups = {}
            for m, c in self.terms.items():
                if len(m) == 1 and m[0][0] == "var":
                    a = m[0]
                    kn = facts.known.get(a) if facts is not None else None
                    groups.setdefault(a[1], []).append((c, kn))
            for g in groups.values():
                if any(kn == 1 for _c, kn in g):
                    cs = [c for c, kn in g if kn == 1][:1]
                else:
                    cs = [c for c, kn in g if kn != 0] + [0]
                lo = None if lo is None else lo + min(cs)
                hi = None if hi is None else hi + max(cs)
            return (lo, hi)
        if 1 <= len(ats) <= 8 and all(is_bool_atom(a) for a in ats) and (
                (self.degree() >= 2 and len(ats) <= 6)
                or len(set(a[1] for a in ats if a[0] == "var")) < sum(1 for a in ats if a[0] == "var")):
            # (the variant atoms of one enum value exclude each other: a sum of them is not their interval sum)
            # exact range of a small boolean polynomial
            ats = sorted(ats, key=_akey)
            vals = []
            for mask in range(1 << len(ats)):
                asg = {a: (mask >> i) & 1 for i, a in enumerate(ats)}
                if facts is not None and any(a in facts.known and facts.known[a] != v for a, v in asg.items()):
                    continue
                seen = {}
                bad = False
                for a, v in asg.items():
                    if a[0] == "var" and v:
                        if a[1] in seen:
                            bad = True
                        seen[a[1]] = 1
                if bad:
                    continue
                vals.append(self.subst(asg).const_value())
            if vals:
                return (min(vals), max(vals))
        sel = []
        for m in self.terms:
            if len(m) >= 2 and any(not is_bool_atom(a) for a in m):
                for a in m:
                    if is_bool_atom(a) and a not in sel:
                        sel.append(a)
        if sel and len(sel) <= 4:
            lo = hi = None
            first = True
            for mask in range(1 << len(sel)):
                asg = {}
                skip = False
                for i, a in enumerate(sel):
                    v = (mask >> i) & 1
                    if facts is not None and a in facts.known and facts.known[a] != v:
                        skip = True
                        break
                    asg[a] = v
                if skip:
                    continue
                l2, h2 = self.subst(asg)._range0(facts)
                if first:
                    lo, hi, first = l2, h2, False
                else:
                    lo = None if (lo is None or l2 is None) else min(lo, l2)
                    hi = None if (hi is None or h2 is None) else max(hi, h2)
            if not first:
                return (lo, hi)
        return self._range0(facts)

    def _range0(self, facts=None):
        lo = hi = 0
        for m, c in self.terms.items():
            mlo, mhi = 1, 1
            for a in m:
                alo, ahi = atom_range(a) if facts is None else facts.atom_range(a)
                if alo is None or ahi is None:
                    mlo = mhi = None
                    break
                cands = [mlo * alo, mlo * ahi, mhi * alo, mhi * ahi]
                mlo, mhi = min(cands), max(cands)
            if mlo is None:
                return (None, None) if c != 0 else (lo, hi)
            a, b = (c * mlo, c * mhi) if c >= 0 else (c * mhi, c * mlo)
            lo += a
            hi += b
        return (lo, hi)

    def __repr__(self):
        if not self.terms:
            return "0"
        parts = []
        for m, c in sorted(self.terms.items(), key=lambda mc: repr(mc[0])):
            ms = "*".join(atom_str(a) for a in m)
            if not m:
                parts.append(str(c))
            elif c == 1:
                parts.append(ms)
            elif c == -1:
                parts.append("-" + ms)
            else:
                parts.append("%d*%s" % (c, ms))
        return " + ".join(parts).replace("+ -", "- ")


def atom_str(a):
    k = a[0]
    if k in ("i", "r", "b"):
        return str(a[1])
    if k == "bit":
        return "%s[%d]" % (atom_str(a[1]), a[2])
    if k == "var":
        return "%s@v%d" % (a[1], a[2])
    if k == "ge":
        return "[%r >= 0]" % Poly(dict(a[1]))
    if k == "eq":
        return "[%r == 0]" % Poly(dict(a[1]))
    if k == "t":
        return "%s(%s)" % (a[1], ",".join(str(x) for x in a[2:]))
    return repr(a)


ZERO = Poly()
ONE = Poly.const(1)


def sym_int(name, bits, signed):
    return Poly.atom(("i", name, bits, signed))


def sym_range(name, lo, hi):
    return Poly.atom(("r", name, lo, hi))


def sym_bool(name):
    return Poly.atom(("b", name))


# -------------------------------------------------------------------- boolean algebra on 0/1 polys
def b_not(p):
    return ONE - p


def b_and(p, q):
    return p * q


def b_or(p, q):
    return p + q - p * q


def b_xor(p, q):
    return p + q - 2 * (p * q)


def b_ite(c, a, b):
    return c * a + (ONE - c) * b


# -------------------------------------------------------------------- comparison atoms
def _canon_ge(p):
    """canonical (poly, positive?) for the predicate p >= 0 over the integers."""
    c0 = p.terms.get((), 0)
    coeffs = [abs(c) for m, c in p.terms.items() if m != ()]
    if not coeffs:
        return None
    g = reduce(gcd, coeffs)
    if g > 1:
        # g*q + c0 >= 0  <=>  q >= ceil(-c0/g)  <=>  q + floor(c0/g) >= 0
        t = {m: c // g for m, c in p.terms.items() if m != ()}
        t[()] = c0 // g  # floor division
        p = Poly(t)
    return p


def ge0(p, facts=None):
    """0/1 poly for the truth of p >= 0 (integers)."""
    lo, hi = p.range(facts)
    if lo is not None and lo >= 0:
        return ONE
    if hi is not None and hi < 0:
        return ZERO
    if lo == -1 and hi == 0:
        return p + 1  # p + 1 is 0/1-valued and p >= 0 <=> p + 1 == 1
    q = _canon_ge(p)
    lo, hi = q.range(facts)
    if lo is not None and lo >= 0:
        return ONE
    if hi is not None and hi < 0:
        return ZERO
    if lo == -1 and hi == 0:
        return q + 1
    # choose between q >= 0 and its complement -q-1 >= 0 a canonical representative:
    # the one whose first non-constant monomial (in sorted order) has a positive coefficient
    items = sorted(((m, c) for m, c in q.terms.items() if m != ()), key=lambda mc: repr(mc[0]))
    if items[0][1] > 0:
        return Poly.atom(("ge", q.key()))
    comp = _canon_ge(-q - 1)
    return ONE - Poly.atom(("ge", comp.key()))


def eq0(p, facts=None):
    coeffs = [abs(c) for c in p.terms.values()]
    if coeffs:
        g = reduce(gcd, coeffs)
        if g > 1:
            p = p.scale_div(g)
    lo, hi = p.range(facts)
    if lo is not None and hi is not None:
        if lo > 0 or hi < 0:
            return ZERO
        if lo == 0 and hi == 0:
            return ONE
        # 0/1-valued polynomial: p == 0  <=>  not p
        if lo == 0 and hi == 1:
            return ONE - p
        if lo == 0:
            return b_not(ge0(p - 1, facts))  # p >= 0: p == 0 <=> not (p >= 1)
        if hi == 0:
            return b_not(ge0(-p - 1, facts))
    c = p.const_value()
    if c is not None:
        return ONE if c == 0 else ZERO
    items = sorted(((m, c) for m, c in p.terms.items() if m != ()), key=lambda mc: repr(mc[0]))
    if items[0][1] < 0:
        p = -p
    return Poly.atom(("eq", p.key()))


def cmp_lt(a, b, facts=None):
    return ge0(b - a - 1, facts)


def cmp_le(a, b, facts=None):
    return ge0(b - a, facts)


def cmp_eq(a, b, facts=None):
    return eq0(a - b, facts)


def atom_pred_poly(a):
    """for a 'ge'/'eq' atom: the polynomial it talks about"""
    return Poly(dict(a[1]))


# -------------------------------------------------------------------- bit vectors
def bits_of_const(v, width):
    return [Poly.const((v >> i) & 1) for i in range(width)]


def bits_to_poly(bits, signed=False):
    p = ZERO
    n = len(bits)
    for i, b in enumerate(bits):
        w = 1 << i
        if signed and i == n - 1:
            w = -w
        p = p + w * b
    return fold_bits(p)


def fold_bits(p):
    """replace complete runs  sum_i 2^i * bit(x,i)  (all bits of x, common factor) by x."""
    by_atom = {}
    for m, c in p.terms.items():
        if len(m) == 1 and m[0][0] == "bit":
            by_atom.setdefault(m[0][1], {})[m[0][2]] = c
    if not by_atom:
        return p
    t = dict(p.terms)
    changed = False
    for x, d in by_atom.items():
        if x[0] != "i":
            continue
        w, signed = x[2], x[3]
        if set(d) != set(range(w)):
            continue
        f = d[0]
        ok = all(d[i] == (f * (1 << i) if not (signed and i == w - 1) else -f * (1 << i)) for i in range(w))
        if not ok:
            continue
        for i in range(w):
            del t[(("bit", x, i),)]
        t[(x,)] = t.get((x,), 0) + f
        changed = True
    return Poly(t) if changed else p


def unfold_bits(p):
    """inverse of fold_bits for atoms of kind 'i' (used before comparing bit-level values)."""
    mapping = {}
    for a in p.atoms():
        if a[0] == "i":
            w, signed = a[2], a[3]
            q = ZERO
            for i in range(w):
                wt = 1 << i
                if signed and i == w - 1:
                    wt = -wt
                q = q + wt * Poly.atom(("bit", a, i))
            mapping[a] = q
    return p.subst(mapping)
