"""Per-body control-flow facts: successors, immediate post-dominators (restricted to blocks
that can reach `return`), natural-loop headers, loop membership."""

EXIT = -1


def successors(term):
    k = term["k"]
    if k == "goto":
        return [term["target"]]
    if k == "switch":
        out = [bb for _, bb in term["arms"]]
        out.append(term["otherwise"])
        return out
    if k in ("call",):
        return [term["target"]] if term["target"] is not None else []
    if k in ("assert", "drop"):
        return [term["target"]]
    return []


class CFG:
    def __init__(self, body):
        self.body = body
        blocks = body["blocks"]
        n = len(blocks)
        self.n = n
        self.succ = [[] for _ in range(n)]
        for i, b in enumerate(blocks):
            if b["cleanup"]:
                continue
            seen = []
            for s in successors(b["term"]):
                if s not in seen and not blocks[s]["cleanup"]:
                    seen.append(s)
            self.succ[i] = seen
        self.pred = [[] for _ in range(n)]
        for i in range(n):
            for s in self.succ[i]:
                self.pred[s].append(i)
        self.returns = [i for i, b in enumerate(blocks) if b["term"]["k"] == "return" and not b["cleanup"]]
        # blocks that can reach a return
        can = set(self.returns)
        work = list(self.returns)
        while work:
            x = work.pop()
            for p in self.pred[x]:
                if p not in can:
                    can.add(p)
                    work.append(p)
        self.can_return = can
        self._ipdom()
        self._loops()
        self._tails()
        self._rpo()

    def _ipdom(self):
        # iterative post-dominator sets on the restricted graph (small graphs: fine)
        nodes = sorted(self.can_return)
        full = set(nodes) | {EXIT}
        pdom = {x: set(full) for x in nodes}
        pdom[EXIT] = {EXIT}
        changed = True
        rsucc = {}
        for x in nodes:
            ss = [s for s in self.succ[x] if s in self.can_return]
            if self.body["blocks"][x]["term"]["k"] == "return":
                ss = [EXIT]
            rsucc[x] = ss
        order = list(reversed(nodes))
        while changed:
            changed = False
            for x in order:
                ss = rsucc[x]
                if not ss:
                    new = {x}
                else:
                    new = set.intersection(*[pdom[s] for s in ss]) | {x}
                if new != pdom[x]:
                    pdom[x] = new
                    changed = True
        self.pdom = pdom
        self.ipdom = {}
        for x in nodes:
            cands = pdom[x] - {x}
            # immediate: the candidate that is post-dominated by all other candidates
            best = None
            for c in cands:
                if all((d in pdom[c]) for d in cands):
                    best = c
                    break
            self.ipdom[x] = best if best is not None else EXIT

    def _loops(self):
        # dominators from entry (block 0) over non-cleanup blocks
        n = self.n
        reach = set()
        work = [0]
        while work:
            x = work.pop()
            if x in reach:
                continue
            reach.add(x)
            work.extend(self.succ[x])
        nodes = sorted(reach)
        dom = {x: set(nodes) for x in nodes}
        dom[0] = {0}
        changed = True
        while changed:
            changed = False
            for x in nodes:
                if x == 0:
                    continue
                ps = [p for p in self.pred[x] if p in reach]
                new = (set.intersection(*[dom[p] for p in ps]) if ps else set()) | {x}
                if new != dom[x]:
                    dom[x] = new
                    changed = True
        self.dom = dom
        self.reach = reach
        self.back_edges = []
        self.loop_headers = set()
        self.loops = {}  # header -> set of blocks
        for x in nodes:
            for s in self.succ[x]:
                if s in dom[x]:
                    self.back_edges.append((x, s))
                    self.loop_headers.add(s)
                    body = self.loops.setdefault(s, {s})
                    stack = [x]
                    while stack:
                        y = stack.pop()
                        if y not in body:
                            body.add(y)
                            stack.extend(p for p in self.pred[y] if p in reach)

    def _tails(self):
        """exit tails: blocks from which every path reaches `return` through goto / drop /
        switch terminators only (drop-flag plumbing). Joins inside a tail are not merge points."""
        blocks = self.body["blocks"]
        tail = set(self.returns)
        changed = True
        while changed:
            changed = False
            for i in range(self.n):
                if i in tail or blocks[i]["cleanup"]:
                    continue
                k = blocks[i]["term"]["k"]
                if k in ("goto", "drop", "switch") and self.succ[i] and all(s in tail for s in self.succ[i]):
                    tail.add(i)
                    changed = True
        self.tail = tail

    def _rpo(self):
        back = set(self.back_edges)
        seen = set()
        order = []

        def dfs(x):
            stack = [(x, iter(self.succ[x]))]
            seen.add(x)
            while stack:
                node, it = stack[-1]
                adv = False
                for s in it:
                    if (node, s) in back or s in seen:
                        continue
                    seen.add(s)
                    stack.append((s, iter(self.succ[s])))
                    adv = True
                    break
                if not adv:
                    order.append(node)
                    stack.pop()
        dfs(0)
        order.reverse()
        self.rpo_index = {b: i for i, b in enumerate(order)}

    def loop_depth(self, bb):
        return sum(1 for h, blocks in self.loops.items() if bb in blocks)


_cfg_cache = {}


def cfg_of(body):
    k = id(body)
    c = _cfg_cache.get(k)
    if c is None:
        c = CFG(body)
        _cfg_cache[k] = c
    return c
