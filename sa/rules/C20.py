"""C20 - batching and buffering actually reduce bus overhead, never below correctness."""
import exec as E
import trace as TR
from poly import Poly, ONE, ZERO, sym_int
from values import Agg, SymV, IntV, BoolV, Ptr
from rules import common as C
from rules import draw as D

LEVEL = "other"
SPIIF = "mipidsi::interface::spi::SpiInterface"
HV = "heapless::vec::Vec"


def capacities(F):
    """{(adt, field): capacity} of every heapless::Vec<_, N> field in the batch module"""
    out = {}
    for a in F.adts.values():
        if not a["id"].startswith("mipidsi::batch::"):
            continue
        for f in a["variants"][0]["fields"]:
            t = f["ty"]
            if t.get("k") == "adt" and t["def"] == HV and t["args"][1].get("k") == "const":
                out[(a["id"].split("::")[-1], f["name"])] = int(t["args"][1]["val"])
    return out


def check_full_buffer_writes(R, F, cfg, rec):
    """the SPI transaction bound of send_pixels: every write after which more pixels are taken from the stream carries
    the whole usable buffer, N x floor(len / N) bytes - so a burst of b bytes needs at most floor(b / usable) + 1
    transactions. Decided on every path round a loop that contains a write, under the assumption that every pixel
    pull of that iteration yielded a pixel (otherwise the stream has ended and this was the last write). Needs the
    relation "staged bytes = N x chunks handed out" (a conserved quantity found by the loop analysis) and the exact
    count of a ChunksExact iterator."""
    from values import IntV as _IntV
    ex = R.executor(F)
    ln = sym_int("len(*self.buffer)", F.pointer_bits, False)
    nn = sym_int("const N", F.pointer_bits, False)
    ex.conserved_coeffs = [nn, -nn, Poly.const(-1)]
    tag = "%s|send_pixels" % cfg
    try:
        res = R.run_entry(ex, rec, assume=[ln - nn, nn - 1, Poly.const((1 << 32) - 1) - ln])
    except E.Undecided as e:
        R.undecided("C20", "%s|transaction-bound|undecided" % tag, str(e))
        return

    def is_pull(ev):
        t = getattr(ev.ret, "ty", None) or {}
        return TR.classify(ev).cls == "NEXT" and t.get("def") == "core::option::Option" and t.get("args") and t["args"][0].get("k") == "array"
    n = 0
    for lid, l in sorted(res.loops.items()):
        for ci, c in enumerate(l["cont"]):
            anns_top = TR.annotate(c["trace"], None)
            anns_all = TR.annotate(c["trace"], res.loops)
            for a_ in anns_top:
                if TR.classify(a_["ev"]).cls != "SPI_WRITE":
                    continue
                a1 = a_["ev"].args[1]
                if not (isinstance(a1, Ptr) and a1.meta is not None):
                    continue
                f2 = c["state"].facts.copy()
                feas = all(f2.assume(c_, 1) for c_ in a_["conds"])
                for b_ in anns_all:
                    if feas and is_pull(b_["ev"]):
                        feas = f2.assume(ex.variant_cond(b_["ev"].ret, 1), 1)
                if not feas:
                    continue          # the stream ended in this iteration: the last write may be short
                n += 1
                usable = ex.binop(c["state"], res.frame, "Div", _IntV(F.pointer_bits, False, p=ln), _IntV(F.pointer_bits, False, p=nn)).poly() * nn
                d = f2.simplify(a1.meta.poly() - usable)
                ok = d.const_value() == 0 or (f2.entails_ge0(d, use_eq=True) is not None and f2.entails_ge0(-d, use_eq=True) is not None)
                R.ob("C20c-full-buffer-before-next-write", "%s|loop@%s|path%d" % (tag, lid.split("@")[1].split("/")[0], ci), ok,
                     "an SPI write of %r bytes is followed by more pixels although the usable buffer holds N*floor(len/N) bytes: it is not "
                     "provably a full buffer, so a burst may need more than floor(b/usable)+1 transactions" % (f2.simplify(a1.meta.poly()),),
                     sample={"loop": lid.split("::")[-1], "write_length": repr(f2.simplify(a1.meta.poly())), "usable": repr(usable)})
    R.floor(tag + " writes followed by further pulls", n, 1)


BOUND = 65534       # in-bounds coordinates: the logical size is at most 65535 (C09)


def vec_len(ex, v):
    """length polynomial of a heapless::Vec value (length-only model of summaries.py)"""
    from values import ITE
    if isinstance(v, Agg) and v.name == HV and v.fields and isinstance(v.fields[0], IntV):
        return v.fields[0].poly()
    if isinstance(v, SymV):
        return sym_int("len(%s)" % v.name, ex.pbits, False)
    if isinstance(v, ITE):
        a, b = vec_len(ex, v.a), vec_len(ex, v.b)
        return None if a is None or b is None else v.c * a + (ONE - v.c) * b
    return None


def check_row_merge(R, F, cfg, cap):
    """the row accumulator, one call of next() on an in-bounds pixel stream: a row is handed on while pixels keep
    coming only if the pixel just pulled is NOT the right-hand neighbour of the row's last pixel, or the row is full"""
    from poly import eq0, ge0
    import summaries
    its = [b for b in F.trait_impl_method(TR.ITER, "next") if b["container"]["self_ty"].get("def", "").startswith("mipidsi::batch::")]
    rows = []
    for b in its:
        impl = [i for i in F.raw["impls"] if i["id"] == b["container"]["impl"]]
        item = [i.get("ty") for i in (impl[0]["items"] if impl else []) if i.get("name") == "Item"]
        ad = F.adts.get(item[0]["def"]) if item and item[0] and item[0].get("k") == "adt" else None
        names = [f["name"] for f in ad["variants"][0]["fields"]] if ad else []
        if "x_right" in names and "y" in names and "x_left" in names:
            rows.append((b, ad, names))
    if len(rows) != 1 or cap is None:
        R.undecided("C20", "%s|row-iterator-anchor" % cfg, "the row accumulator (an Iterator in batch.rs whose Item has x_left, x_right, y) "
                    "was not found exactly once (%d)" % len(rows))
        return
    rec, ad, names = rows[0]
    ex = R.executor(F)

    def in_bounds(trait, name, rn):
        if trait == TR.ITER and name == "next":
            x, y = sym_int(rn + "@Some.0.0.x", 32, True), sym_int(rn + "@Some.0.0.y", 32, True)
            return [x, y, BOUND - x, BOUND - y]
    ex.result_facts = in_bounds
    ex.templates = [lambda v: BOUND - v]
    self_adt = rec["container"]["self_ty"]["def"]
    snames = [f["name"] for f in F.adts[self_adt]["variants"][0]["fields"]]
    u16s = [n_ for n_, _p, t_ in C.flat_field_types(F, self_adt) if t_.get("k") == "int"]
    assume = [BOUND - sym_int("*self.%s" % n, 16, False) for n in u16s]
    tag = "%s|%s::next" % (cfg, self_adt.split("::")[-1])
    try:
        res = R.run_entry(ex, rec, assume=assume)
    except E.Undecided as e:
        R.undecided("C20", "%s|undecided" % tag, str(e))
        return
    nflush = 0
    for o in res.outcomes:
        if o.kind == "panic":
            continue        # C02
        v = o.value
        if not (isinstance(v, Agg) and v.variant == 1 and isinstance(v.fields[0], Agg) and v.fields[0].name == ad["id"]):
            continue
        row = {n: v.fields[0].fields[i] for i, n in enumerate(names)}
        # the pixel pulled in the returning iteration (if the stream had ended there is nothing to merge)
        nexts = [a_["ev"] for a_ in TR.annotate(o.state.trace, res.loops) if TR.classify(a_["ev"]).cls == "NEXT"]
        if not nexts or not isinstance(nexts[-1].ret, SymV):
            continue
        rn = nexts[-1].ret.name
        f = o.state.facts
        some = f.simplify(Poly.atom(("var", rn, 1, 2))).const_value()
        if some != 1:
            continue
        nflush += 1
        x, y = sym_int(rn + "@Some.0.0.x", 32, True), sym_int(rn + "@Some.0.0.y", 32, True)
        f2 = f.copy()
        feasible = f2.assume(eq0(x - row["x_right"].poly() - 1, f2), 1) and f2.assume(eq0(y - row["y"].poly(), f2), 1)
        if feasible:
            vf = [f_["name"] for f_ in ad["variants"][0]["fields"] if f_["ty"].get("k") == "adt" and f_["ty"].get("def") == HV]
            ln = vec_len(ex, row[vf[0]]) if len(vf) == 1 else None
            if ln is None:
                R.undecided("C20", "%s|row-length" % tag, "length of the flushed row not readable from %r" % (row,))
                continue
            feasible = f2.assume(ge0(Poly.const(cap - 1) - f2.simplify(ln), f2), 1)
        if feasible and (C.known_atoms_violated(f2) or C.contradictory(f2)):
            feasible = False
        R.ob("C20b-flush-only-when-not-mergeable", "%s|flush%d" % (tag, nflush), not feasible,
             "next() hands on a row although the pixel just pulled is its right-hand neighbour on the same line and the row is not "
             "full: adjacent pixels are not merged into one burst", sample={"path": [("%r" % p_)[:120] for p_, _ in f.decisions()][:6]})
    R.floor("%s flush-with-pixel paths" % tag, nflush, 1)


def run(R):
    R.trusted = ["rustc nightly MIR construction", "AIM interpreter", "C08 (framing), C06 (SPI progress and staging)",
                 "heapless::Vec<T, N> holds at most N items (capacity is a type argument)"]
    R.explanation = ("(a) On every success path of fill_solid and fill_contiguous (8 orientations, both batch settings) each of CASET, RASET "
                     "and RAMWR occurs exactly once (zero on the empty-intersection path) and none inside a loop; clear is the trait default, "
                     "hence one fill_solid. (b) necessary conditions for batching: with `batch`, draw_iter's pixel bursts are never single "
                     "`once(colour)` streams (it does not fall back to set_pixel per item) and their source is the block accumulator; the row "
                     "capacity read from the heapless::Vec type arguments is >= 2 and <= the block capacity. (c) in SpiInterface no SPI "
                     "write sits in the per-pixel staging loop (one transaction per filled buffer, not per pixel). Not decided: that "
                     "adjacent pixels are actually merged (value-level adjacency inside stateful iterators) and the exact "
                     "floor(b/usable)+1 transaction bound.")
    for cfg in R.configs:
        F = R.facts(cfg)
        fs = C.drawtarget_method(F, "fill_solid")
        fc = C.drawtarget_method(F, "fill_contiguous")
        R.ob("C20a-clear-is-default", "%s|clear" % cfg, not F.trait_impl_method(C.DRAWTARGET, "clear", self_adt=C.DISPLAY),
             "Display overrides DrawTarget::clear")
        oris = D.ORIENTATIONS if R.tier == "thorough" else [(0, False), (3, True)]
        for (q, m) in oris:
            otag = "%s|%ddeg%s" % (cfg, q * 90, "+mirror" if m else "")
            for rec, nm in ((fs, "fill_solid"), (fc, "fill_contiguous")):
                ex, g, res = D.run_draw(R, F, rec, q, m)
                for o in res.returns():
                    ann = TR.annotate(o.state.trace, res.loops)
                    kinds = [D.wsym(TR.classify(a_["ev"])) for a_ in ann if TR.classify(a_["ev"]).cls == "WCMD"]
                    in_loop = [a_ for a_ in ann if a_["in_loop"] and TR.classify(a_["ev"]).cls == "WCMD"]
                    has_pix = any(TR.classify(a_["ev"]).cls in ("PIX", "REP") for a_ in ann)
                    if not has_pix:
                        continue    # error prefix or empty intersection
                    cnt = {k: kinds.count(k) for k in ("CASET", "RASET", "RAMWR")}
                    if cnt != {"CASET": 1, "RASET": 1, "RAMWR": 1} and not in_loop:
                        # the trace of a merged state lists the events of all its alternatives: count per linear path that
                        # is feasible under the outcome's facts (the worst one is reported)
                        try:
                            worst = None
                            for cond_, items in TR.linearize(o.state.trace, limit=1024):
                                if o.state.facts.simplify(cond_).const_value() == 0:
                                    continue
                                ks = [D.wsym(TR.classify(it)) for it in items if isinstance(it, E.Ev) and it.kind == "call" and TR.classify(it).cls == "WCMD"]
                                if not any(isinstance(it, E.Ev) and it.kind == "call" and TR.classify(it).cls in ("PIX", "REP") for it in items):
                                    continue
                                c_ = {k: ks.count(k) for k in ("CASET", "RASET", "RAMWR")}
                                if worst is None or c_ != {"CASET": 1, "RASET": 1, "RAMWR": 1}:
                                    worst = c_
                            if worst is None:
                                continue        # no feasible path of this outcome sends pixels (an error prefix)
                            cnt = worst
                        except E.Undecided:
                            pass
                    R.ob("C20a-one-window-per-fill", "%s|%s" % (otag, nm), cnt == {"CASET": 1, "RASET": 1, "RAMWR": 1} and not in_loop,
                         "%s uses %s address-window set-ups (in a loop: %s); it must be exactly one" % (nm, cnt, bool(in_loop)),
                         sample={"entry": nm, "orientation": [q * 90, m], "window_commands": cnt})
        # (b) batching
        if F.batch:
            caps = capacities(F)
            rowc = [v for (a, f), v in caps.items() if "Row" in a]
            blkc = [v for (a, f), v in caps.items() if "Block" in a]
            R.ob("C20b-row-capacity", "%s|capacities" % cfg, bool(rowc) and bool(blkc) and min(rowc) >= 2 and max(rowc) <= min(blkc),
                 "row buffer capacities %s / block buffer capacities %s: need 2 <= row <= block" % (sorted(set(rowc)), sorted(set(blkc))),
                 sample={"row_capacity": sorted(set(rowc)), "block_capacity": sorted(set(blkc))})
            di = C.drawtarget_method(F, "draw_iter")
            ex, g, res = D.run_draw(R, F, di, 0, False)
            singles = []
            srcs = set()
            for o in res.outcomes:
                for a_ in TR.annotate(o.state.trace, res.loops):
                    s = TR.classify(a_["ev"])
                    if s.cls == "PIX":
                        it = s.ev.args[1]
                        nmm = it.name if isinstance(it, Agg) else repr(it)
                        srcs.add(nmm)
                        if isinstance(it, Agg) and it.name == "core::iter::once":
                            singles.append(TR.where(s.ev))
            R.ob("C20b-draw-iter-uses-blocks", "%s|draw_iter" % cfg, not singles and bool(srcs),
                 "with `batch`, draw_iter sends single-pixel bursts (%s): it bypasses the row/block pipeline" % singles[:2],
                 sample={"burst_sources": sorted(srcs)})
            check_row_merge(R, F, cfg, min(rowc) if rowc else None)
        # (c) SPI: no write in the per-pixel staging loop
        for mname in ("send_pixels", "send_repeated_pixel"):
            rec = C.one(F.trait_impl_method(C.IFACE, mname, self_adt=SPIIF), "SpiInterface::" + mname)
            ex = R.executor(F)
            res = R.run_entry(ex, rec)
            for lid, l in res.loops.items():
                parents = [p for p, pl in res.loops.items() if any(isinstance(it, E.LoopMark) and it.loop_id == lid for c in pl["cont"] for it in c["trace"])]
                writes = [TR.where(e) for c in l["cont"] for e in c["trace"] if isinstance(e, E.Ev) and e.kind == "call" and TR.classify(e).cls == "SPI_WRITE"]
                if parents:
                    R.ob("C20c-no-write-per-pixel", "%s|%s|inner-loop" % (cfg, mname), not writes,
                         "an SPI write sits in the per-pixel staging loop of %s (%s): one transaction per pixel" % (mname, writes[:2]))
                fills = [e for c in l["cont"] for e in c["trace"] if isinstance(e, E.Ev) and e.kind == "call" and TR.classify(e).cls == "NEXT"]
                if fills and writes and not parents and mname == "send_pixels" and False:
                    pass
            if mname == "send_pixels":
                check_full_buffer_writes(R, F, cfg, rec)
