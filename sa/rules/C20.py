"""C20 - batching and buffering actually reduce bus overhead, never below correctness."""
import exec as E
import trace as TR
from poly import Poly, ONE, ZERO, sym_int
from values import Agg, SymV, IntV, BoolV, Ptr
from rules import common as C
from rules import draw as D

LEVEL = "other"
SPIIF = "mipidsi::interface::spi::SpiInterface"
HV = "heapless::vec::Vec"


def capacities(F):
    """{(adt, field): capacity} of every heapless::Vec<_, N> field in the batch module"""
    out = {}
    for a in F.adts.values():
        if not a["id"].startswith("mipidsi::batch::"):
            continue
        for f in a["variants"][0]["fields"]:
            t = f["ty"]
            if t.get("k") == "adt" and t["def"] == HV and t["args"][1].get("k") == "const":
                out[(a["id"].split("::")[-1], f["name"])] = int(t["args"][1]["val"])
    return out


def run(R):
    R.trusted = ["rustc nightly MIR construction", "AIM interpreter", "C08 (framing), C06 (SPI progress and staging)",
                 "heapless::Vec<T, N> holds at most N items (capacity is a type argument)"]
    R.explanation = ("(a) On every success path of fill_solid and fill_contiguous (8 orientations, both batch settings) each of CASET, RASET "
                     "and RAMWR occurs exactly once (zero on the empty-intersection path) and none inside a loop; clear is the trait default, "
                     "hence one fill_solid. (b) necessary conditions for batching: with `batch`, draw_iter's pixel bursts are never single "
                     "`once(colour)` streams (it does not fall back to set_pixel per item) and their source is the block accumulator; the row "
                     "capacity read from the heapless::Vec type arguments is >= 2 and <= the block capacity. (c) in SpiInterface no SPI "
                     "write sits in the per-pixel staging loop (one transaction per filled buffer, not per pixel). Not decided: that "
                     "adjacent pixels are actually merged (value-level adjacency inside stateful iterators) and the exact "
                     "floor(b/usable)+1 transaction bound.")
    for cfg in R.configs:
        F = R.facts(cfg)
        fs = C.drawtarget_method(F, "fill_solid")
        fc = C.drawtarget_method(F, "fill_contiguous")
        R.ob("C20a-clear-is-default", "%s|clear" % cfg, not F.trait_impl_method(C.DRAWTARGET, "clear", self_adt=C.DISPLAY),
             "Display overrides DrawTarget::clear")
        oris = D.ORIENTATIONS if R.tier == "thorough" else [(0, False), (3, True)]
        for (q, m) in oris:
            otag = "%s|%ddeg%s" % (cfg, q * 90, "+mirror" if m else "")
            for rec, nm in ((fs, "fill_solid"), (fc, "fill_contiguous")):
                ex, g, res = D.run_draw(R, F, rec, q, m)
                for o in res.returns():
                    ann = TR.annotate(o.state.trace, res.loops)
                    kinds = [D.wsym(TR.classify(a_["ev"])) for a_ in ann if TR.classify(a_["ev"]).cls == "WCMD"]
                    in_loop = [a_ for a_ in ann if a_["in_loop"] and TR.classify(a_["ev"]).cls == "WCMD"]
                    has_pix = any(TR.classify(a_["ev"]).cls in ("PIX", "REP") for a_ in ann)
                    if not has_pix:
                        continue    # error prefix or empty intersection
                    cnt = {k: kinds.count(k) for k in ("CASET", "RASET", "RAMWR")}
                    R.ob("C20a-one-window-per-fill", "%s|%s" % (otag, nm), cnt == {"CASET": 1, "RASET": 1, "RAMWR": 1} and not in_loop,
                         "%s uses %s address-window set-ups (in a loop: %s); it must be exactly one" % (nm, cnt, bool(in_loop)),
                         sample={"entry": nm, "orientation": [q * 90, m], "window_commands": cnt})
        # (b) batching
        if F.batch:
            caps = capacities(F)
            rowc = [v for (a, f), v in caps.items() if "Row" in a]
            blkc = [v for (a, f), v in caps.items() if "Block" in a]
            R.ob("C20b-row-capacity", "%s|capacities" % cfg, bool(rowc) and bool(blkc) and min(rowc) >= 2 and max(rowc) <= min(blkc),
                 "row buffer capacities %s / block buffer capacities %s: need 2 <= row <= block" % (sorted(set(rowc)), sorted(set(blkc))),
                 sample={"row_capacity": sorted(set(rowc)), "block_capacity": sorted(set(blkc))})
            di = C.drawtarget_method(F, "draw_iter")
            ex, g, res = D.run_draw(R, F, di, 0, False)
            singles = []
            srcs = set()
            for o in res.outcomes:
                for a_ in TR.annotate(o.state.trace, res.loops):
                    s = TR.classify(a_["ev"])
                    if s.cls == "PIX":
                        it = s.ev.args[1]
                        nmm = it.name if isinstance(it, Agg) else repr(it)
                        srcs.add(nmm)
                        if isinstance(it, Agg) and it.name == "core::iter::once":
                            singles.append(TR.where(s.ev))
            R.ob("C20b-draw-iter-uses-blocks", "%s|draw_iter" % cfg, not singles and bool(srcs),
                 "with `batch`, draw_iter sends single-pixel bursts (%s): it bypasses the row/block pipeline" % singles[:2],
                 sample={"burst_sources": sorted(srcs)})
        # (c) SPI: no write in the per-pixel staging loop
        for mname in ("send_pixels", "send_repeated_pixel"):
            rec = C.one(F.trait_impl_method(C.IFACE, mname, self_adt=SPIIF), "SpiInterface::" + mname)
            ex = R.executor(F)
            res = R.run_entry(ex, rec)
            for lid, l in res.loops.items():
                parents = [p for p, pl in res.loops.items() if any(isinstance(it, E.LoopMark) and it.loop_id == lid for c in pl["cont"] for it in c["trace"])]
                writes = [TR.where(e) for c in l["cont"] for e in c["trace"] if isinstance(e, E.Ev) and e.kind == "call" and TR.classify(e).cls == "SPI_WRITE"]
                if parents:
                    R.ob("C20c-no-write-per-pixel", "%s|%s|inner-loop" % (cfg, mname), not writes,
                         "an SPI write sits in the per-pixel staging loop of %s (%s): one transaction per pixel" % (mname, writes[:2]))
                fills = [e for c in l["cont"] for e in c["trace"] if isinstance(e, E.Ev) and e.kind == "call" and TR.classify(e).cls == "NEXT"]
                if fills and writes and not parents and mname == "send_pixels" and False:
                    pass
            nested = [lid for lid in res.loops if any(any(isinstance(it, E.LoopMark) and it.loop_id == lid for c in pl["cont"] for it in c["trace"]) for pl in res.loops.values())]
            if mname == "send_pixels":
                R.ob("C20c-staging-loop-present", "%s|%s" % (cfg, mname), len(nested) >= 1,
                     "send_pixels no longer stages several pixels per SPI write (no inner staging loop)")
