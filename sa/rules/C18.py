"""C18 - DCS command types serialise to their MIPI opcode and big-endian parameters;
write_command / write_raw put exactly that on the bus."""
import exec as E
import trace as TR
import tys as T
from poly import Poly, ONE, ZERO, unfold_bits
from values import Agg, SymV, IntV, BoolV, Ptr
from rules import common as C

LEVEL = "proof"
DCS = "mipidsi::dcs::"
EXT = "mipidsi::dcs::InterfaceExt"

# MIPI DCS opcode table (external oracle), keyed by public type name
UNIT_OPCODES = {"SoftReset": 0x01, "EnterSleepMode": 0x10, "ExitSleepMode": 0x11, "EnterPartialMode": 0x12,
                "EnterNormalMode": 0x13, "SetDisplayOff": 0x28, "SetDisplayOn": 0x29, "WriteMemoryStart": 0x2C,
                "ExitIdleMode": 0x38, "EnterIdleMode": 0x39}
BPP_BITS = {"Three": 0b001, "Eight": 0b010, "Twelve": 0b011, "Sixteen": 0b101, "Eighteen": 0b110, "TwentyFour": 0b111}


def be(name, i):
    """byte i (0 = most significant) of the u16 symbol `name`"""
    base = 8 if i == 0 else 0
    return sum((1 << k) * C.bit(name, 16, base + k) for k in range(8))


def u16(name):
    from poly import sym_int
    return IntV(16, False, p=sym_int(name, 16, False))


def oracle_for(F, tname, ex):
    """-> (constructor args (values), opcode poly, n poly, [byte polys]) or None for unknown types"""
    if tname in UNIT_OPCODES:
        return ([], Poly.const(UNIT_OPCODES[tname]), ZERO, [])
    if tname == "SetColumnAddress":
        return ([u16("p0"), u16("p1")], Poly.const(0x2A), Poly.const(4), [be("p0", 0), be("p0", 1), be("p1", 0), be("p1", 1)])
    if tname == "SetPageAddress":
        return ([u16("p0"), u16("p1")], Poly.const(0x2B), Poly.const(4), [be("p0", 0), be("p0", 1), be("p1", 0), be("p1", 1)])
    if tname == "SetScrollArea":
        return ([u16("p0"), u16("p1"), u16("p2")], Poly.const(0x33), Poly.const(6),
                [be("p0", 0), be("p0", 1), be("p1", 0), be("p1", 1), be("p2", 0), be("p2", 1)])
    if tname == "SetScrollStart":
        return ([u16("p0")], Poly.const(0x37), Poly.const(2), [be("p0", 0), be("p0", 1)])
    if tname == "SetInvertMode":
        adt = "mipidsi::options::ColorInversion"
        inv = C.enum_is(F, adt, "p0", "Inverted")
        return ([SymV({"k": "adt", "def": adt, "args": []}, "p0")], 0x20 + inv, ZERO, [])
    if tname == "SetTearingEffect":
        adt = "mipidsi::options::TearingEffect"
        off = C.enum_is(F, adt, "p0", "Off")
        hv = C.enum_is(F, adt, "p0", "HorizontalAndVertical")
        b0 = sum((1 << k) * C.bit("buf[0]", 8, k) for k in range(8))
        return ([SymV({"k": "adt", "def": adt, "args": []}, "p0")], 0x35 - off, ONE - off, [off * b0 + hv])
    if tname == "SetPixelFormat":
        adt = "mipidsi::dcs::set_pixel_format::BitsPerPixel"
        dpi = sum(bits * C.enum_is(F, adt, "dpi", n) for n, bits in BPP_BITS.items())
        dbi = sum(bits * C.enum_is(F, adt, "dbi", n) for n, bits in BPP_BITS.items())
        pf = Agg("adt", "mipidsi::dcs::set_pixel_format::PixelFormat", 0,
                 [SymV({"k": "adt", "def": adt, "args": []}, "dpi"), SymV({"k": "adt", "def": adt, "args": []}, "dbi")])
        return ([pf], Poly.const(0x3A), ONE, [16 * dpi + dbi])
    if tname == "SetAddressMode":
        return (None, Poly.const(0x36), ONE, [sum((1 << k) * C.bit("*self.0", 8, k) for k in range(8))])
    return None


def run(R):
    R.trusted = ["rustc nightly MIR construction", "AIM interpreter", "MIPI DCS opcode table and big-endian parameter layout",
                 "core: u16::to_be_bytes, slice::copy_from_slice, slice indexing"]
    R.explanation = ("For each of the DcsCommand impls: the value is built through its public constructor on symbolic arguments; "
                     "instruction() and fill_params_buf() are interpreted on a 16-cell symbolic buffer. Opcode, returned count, every "
                     "written cell (per-bit polynomial equality with the big-endian oracle, all 2^16 values per field at once) and "
                     "every untouched cell are compared with the MIPI table. write_command is interpreted per command type and its "
                     "single send_command event must carry exactly that opcode and those bytes; write_raw must pass both through.")
    for cfg in R.configs:
        F = R.facts(cfg)
        impls = [i for i in F.impls_by_trait.get(C.DCSCMD, []) if i["self_ty"].get("k") == "adt"]
        R.floor("%s|impl DcsCommand" % cfg, len(impls), 18)
        wc = F.trait_default_method(EXT, "write_command")
        wr = F.trait_default_method(EXT, "write_raw")
        if wc is None or wr is None:
            R.undecided("C18", "%s|InterfaceExt" % cfg, "InterfaceExt::write_command / write_raw not found")
            continue
        buf_ty = {"k": "array", "ty": T.U8, "len": {"k": "const", "val": 16}}
        for impl in sorted(impls, key=lambda i: i["self_ty"]["def"]):
            adt = impl["self_ty"]["def"]
            tname = adt.split("::")[-1]
            orc = oracle_for(F, tname, None)
            if orc is None:
                R.notes.append("unverified-new DcsCommand type %s (no MIPI table entry)" % adt)
                continue
            cargs, op_o, n_o, bytes_o = orc
            ex = R.executor(F)
            # 1. the command value
            if cargs is None:
                cmd = SymV(impl["self_ty"], "*self")
            elif not cargs and not F.inherent_method(adt, "new"):
                cmd = Agg("adt", adt, 0, [], impl["self_ty"])
            else:
                new = C.one(F.inherent_method(adt, "new"), "%s::new" % tname)
                r = C.run_pure(R, ex, new, "C18", "%s|%s::new" % (cfg, tname), args=cargs)
                if r is None:
                    continue
                cmd = r[0]
            ids = {it["name"]: it["id"] for it in impl["items"]}

            def call(mname, extra):
                rec = F.bodies[ids[mname]]
                e2 = R.executor(F)
                e2.root_types[("O", "cmd")] = impl["self_ty"]
                e2.root_types[("O", "buf")] = buf_ty
                e2.const_mem[("O", "cmd")] = cmd
                a = [Ptr(("O", "cmd"), (), None, impl["self_ty"], False)] + extra
                return e2, C.run_pure(R, e2, rec, "C18", "%s|%s::%s" % (cfg, tname, mname), args=a)
            # 2. instruction
            e2, r = call("instruction", [])
            if r is not None:
                got = r[0].poly()
                R.ob("C18-opcode", "%s|%s" % (cfg, tname), C.same_over_variants(got, op_o),
                     "%s::instruction() = %r, the MIPI DCS opcode is %r" % (tname, got, op_o),
                     sample={"type": tname, "opcode": repr(got)})
            # 3. fill_params_buf
            bufp = Ptr(("O", "buf"), (), IntV(64 if F.pointer_bits == 64 else F.pointer_bits, False, p=Poly.const(16)), buf_ty, True)
            e2, r = call("fill_params_buf", [bufp])
            if r is not None:
                v, st, res = r
                R.ob("C18-count", "%s|%s" % (cfg, tname), C.same_over_variants(v.poly(), n_o),
                     "%s::fill_params_buf returns %r, it writes %r parameter bytes" % (tname, v.poly(), n_o))
                buf = e2.read(st, ("O", "buf"), ())
                nmax = len(bytes_o)
                for i in range(16):
                    cell = unfold_bits(buf.fields[i].poly())
                    if i < nmax:
                        want = bytes_o[i]
                        R.ob("C18-param-byte", "%s|%s|byte%d" % (cfg, tname, i), cell == want or C.same_over_variants(cell, want),
                             "%s parameter byte %d is  %r  but MIPI (big-endian) requires  %r" % (tname, i, cell, want),
                             sample={"type": tname, "byte": i, "value": repr(cell)})
                    else:
                        init = sum((1 << k) * C.bit("buf[%d]" % i, 8, k) for k in range(8))
                        R.ob("C18-untouched", "%s|%s|byte%d" % (cfg, tname, i), cell == init,
                             "%s::fill_params_buf touches byte %d beyond its %d parameters" % (tname, i, nmax))
            # 4. write_command::<DI, T>
            e3 = R.executor(F)
            di_ty = {"k": "param", "name": "Self", "idx": 0}
            e3.root_types[("O", "cmd")] = impl["self_ty"]
            res = R.run_entry(e3, wc, subst={"impl DcsCommand": impl["self_ty"]}, args=[None, cmd])
            nsend = 0
            for o in res.outcomes:
                if o.kind == "panic":
                    R.ob("C18-write_command-no-panic", "%s|%s|%s" % (cfg, tname, o.info.get("cond")), False,
                         "write_command::<%s> can panic: %s" % (tname, {k: v for k, v in o.info.items() if k != "stack"}))
                    continue
                for c, syms in C.lin_paths(o):
                    cmds = [s for s in syms if s.cls == "CMD"]
                    ok = len(syms) == 1 and len(cmds) == 1
                    if ok:
                        nsend += 1
                        s = cmds[0]
                        opp = s.ev.args[1].poly()
                        # the number of parameter bytes may depend on the command value: compare under each case
                        n_c = n_o.subst({}) if True else None
                        plen = s.ev.args[2].meta.poly() if isinstance(s.ev.args[2], Ptr) and s.ev.args[2].meta is not None else None
                        ok = C.same_over_variants(opp, op_o) and plen is not None and C.same_over_variants(plen, n_o)
                        if ok and s.params is not None:
                            for i, b in enumerate(s.params):
                                want = bytes_o[i].subst({("bit", ("i", "buf[0]", 8, False), k): 0 for k in range(8)}) if i < len(bytes_o) else None
                                if want is None or unfold_bits(b.poly()) != unfold_bits(want):
                                    # for commands whose length varies, only bytes below n matter
                                    if n_o.const_value() is not None:
                                        ok = False
                        elif s.params is None and n_o.const_value() not in (0, None):
                            ok = False
                    R.ob("C18-write_command", "%s|%s" % (cfg, tname), ok,
                         "write_command::<%s> must emit exactly one send_command(opcode, first n parameter bytes); got %s"
                         % (tname, [repr(x) for x in syms]))
            R.floor("%s|%s write_command paths" % (cfg, tname), nsend, 1)
        # write_raw passes instruction and bytes through unchanged
        e4 = R.executor(F)
        res = R.run_entry(e4, wr)
        for o in res.outcomes:
            for c, syms in C.lin_paths(o):
                ok = len(syms) == 1 and syms[0].cls == "CMD"
                if ok:
                    ev = syms[0].ev
                    a1 = ev.args[1].poly().is_atom()
                    ok = a1 is not None and a1[1] == "instruction" and isinstance(ev.args[2], Ptr) and ev.args[2].root == ("O", "*param_bytes") \
                        and ev.args[2].path == ()
                R.ob("C18-write_raw-passthrough", "%s|write_raw" % cfg, ok,
                     "write_raw must forward exactly (instruction, param_bytes) to Interface::send_command; got %s" % [repr(x) for x in syms])
        # the forwarding impl `Interface for &mut T` must hand every argument on unchanged
        fw = [b for b in F.trait_impl_method(C.IFACE, "send_command") + F.trait_impl_method(C.IFACE, "send_pixels")
              + F.trait_impl_method(C.IFACE, "send_repeated_pixel") if b["container"]["self_ty"].get("k") == "ref"]
        R.floor("%s|forwarding impl methods" % cfg, len(fw), 3)
        for rec in fw:
            e5 = R.executor(F)
            res = R.run_entry(e5, rec)
            for o in res.outcomes:
                syms = [s_ for c_, ss in C.lin_paths(o) for s_ in ss]
                ok = o.kind == "return" and len(syms) == 1 and syms[0].ev.trait == C.IFACE and syms[0].ev.method == rec["name"] \
                    and ((isinstance(o.value, SymV) and o.value.name == syms[0].ev.ret.name)
                         or (isinstance(o.value, Agg) and o.value.name == "core::result::Result" and isinstance(syms[0].ev.ret, SymV)
                             and all((isinstance(x, SymV) and x.name.startswith(syms[0].ev.ret.name + "@")) or repr(x) == "()" for x in o.value.fields)))
                if ok:
                    ev = syms[0].ev
                    nparams = int(rec["body"]["arg_count"])
                    names = {}
                    for d in rec["body"]["debug"]:
                        if d.get("arg") is not None and not d["place"]["proj"]:
                            names[d["place"]["local"]] = d["name"]
                    ok = len(ev.args) == nparams and (ev.names[0] or "").startswith("**self")
                    for i in range(1, nparams):
                        a = ev.args[i]
                        want = names.get(i + 1)
                        got = a.name if isinstance(a, SymV) else (repr(a.poly()) if isinstance(a, IntV) else (a.root[1].lstrip("*") if isinstance(a, Ptr) and not a.path else None))
                        ok = ok and got == want
                R.ob("C18-forwarding-impl", "%s|&mut T|%s" % (cfg, rec["name"]), ok,
                     "`impl Interface for &mut T`::%s must forward its arguments unchanged to T::%s and return its result; got %s"
                     % (rec["name"], rec["name"], [repr(x) for x in syms]))

