"""C05 - every colour value is encoded on the bus as the announced pixel format requires."""
import exec as E
import trace as TR
from poly import Poly, ONE, ZERO, unfold_bits, sym_int
from values import Agg, SymV, IntV, BoolV, Term, Ptr, FnV, vkey
from rules import common as C

LEVEL = "proof"
RGB565 = "embedded_graphics_core::pixelcolor::rgb_color::Rgb565"
RGB666 = "embedded_graphics_core::pixelcolor::rgb_color::Rgb666"


def chan_bits(name, ch, w):
    a = ("i", "%s.%s" % (name, ch), w, False)
    return [Poly.atom(("bit", a, i)) for i in range(w)]


def word(bits):
    return sum((1 << i) * b for i, b in enumerate(bits)) if bits else ZERO


def oracle(color, wbits, name):
    """expected bus words (polynomials) for colour type / bus word width, from the MIPI DBI pixel formats"""
    if color == RGB565:
        raw = chan_bits(name, "b", 5) + chan_bits(name, "g", 6) + chan_bits(name, "r", 5)   # bit 0 .. bit 15
        if wbits == 8:
            return [word(raw[8:16]), word(raw[0:8])]          # most significant byte first
        if wbits == 16:
            return [word(raw)]
    if color == RGB666 and wbits == 8:
        return [word([ZERO, ZERO] + chan_bits(name, ch, 6)) for ch in ("r", "g", "b")]   # R,G,B, six bits left aligned
    return None


def words_of(v):
    if isinstance(v, Agg) and v.kind == "array":
        return [unfold_bits(x.poly()) for x in v.fields]
    return None


def run(R):
    R.trusted = ["rustc nightly MIR construction", "AIM interpreter (bit-sliced values)",
                 "embedded-graphics-core: raw storage layout r:g:b (cross-checked against the RED/GREEN/BLUE constants the compiler "
                 "evaluated), RgbColor::{r,g,b} return the channel values, ToBytes::to_*_bytes serialise the raw storage",
                 "MIPI DBI pixel formats: RGB565 = 16 bits MSB first, RGB666 = three bytes R,G,B with the 6 bits left aligned"]
    R.explanation = ("For each `impl InterfacePixelFormat<Word> for Colour` both methods are interpreted with an abstract interface: "
                     "send_repeated_pixel must emit one Interface::send_repeated_pixel::<N> with count unchanged and words equal to the "
                     "oracle encoding of the symbolic pixel (per-bit polynomial equality: all 65 536 / 262 144 colour values at once); "
                     "send_pixels must emit one Interface::send_pixels::<N> over the caller's stream mapped through a function whose value "
                     "on a symbolic pixel equals the same oracle (so fills and streams agree). N must equal the oracle's word count. "
                     "COLMOD vs colour type per model is obligation C11c-pixel-format.")
    R.witnesses('W2', 'C05d-witness-no-rgb666-on-16bit-bus')
    for cfg in R.configs:
        F = R.facts(cfg)
        impls = [i for i in F.impls_by_trait.get(TR.IPF, [])]
        R.floor("%s|impl InterfacePixelFormat" % cfg, len(impls), 3)
        for impl in sorted(impls, key=lambda i: (i["self_ty"].get("def", ""), i["trait_args"][1].get("s", ""))):
            color = impl["self_ty"].get("def")
            wty = impl["trait_args"][1]
            wbits = F and (int(wty["bits"]) if wty.get("k") == "int" and wty["bits"] != "ptr" else None)
            tag = "%s|%s on u%s" % (cfg, (color or "?").split("::")[-1], wbits)
            ids = {it["name"]: it["id"] for it in impl["items"]}
            orc = oracle(color, wbits, "pixel")
            if orc is None:
                R.notes.append("unverified-new pixel format impl %s" % tag)
                continue
            # ---- send_repeated_pixel
            ex = R.executor(F)
            res = R.run_entry(ex, F.bodies[ids["send_repeated_pixel"]])
            n = 0
            for o in res.outcomes:
                if o.kind == "panic":
                    R.ob("C05-no-panic", "%s|repeat|panic|%s" % (tag, o.info.get("cond")), False, "encoding can panic: %s" % ({k: v for k, v in o.info.items() if k != "stack"},))
                    continue
                for c, syms in C.lin_paths(o):
                    n += 1
                    ok = len(syms) == 1 and syms[0].cls == "REP" and syms[0].extra is None
                    got = words_of(syms[0].ev.args[1]) if ok else None
                    cnt = syms[0].ev.args[2].poly() if ok and isinstance(syms[0].ev.args[2], IntV) else None
                    nn = [g for g in syms[0].ev.gargs if g.get("k") == "const"] if ok else []
                    R.ob("C05b-repeat-one-event", "%s|repeat|event" % tag, ok, "send_repeated_pixel must make exactly one Interface::send_repeated_pixel call, got %s" % [repr(s) for s in syms])
                    R.ob("C05a-encoding", "%s|repeat|words" % tag, got == orc,
                         "a solid fill encodes the pixel as %s but the pixel format requires %s" % (got, orc),
                         sample={"impl": tag, "path": "send_repeated_pixel", "words": [repr(w) for w in (got or [])]})
                    R.ob("C05b-count-unchanged", "%s|repeat|count" % tag, cnt == sym_int("count", 32, False), "repeat count passed on as %r" % (cnt,))
                    R.ob("C05b-word-count", "%s|repeat|N" % tag, len(nn) >= 1 and int(nn[0]["val"]) == len(orc),
                         "words per pixel N=%s, the format has %d" % ([g.get("val") for g in nn], len(orc)))
            R.floor("%s repeat paths" % tag, n, 1)
            # ---- send_pixels
            ex = R.executor(F)
            res = R.run_entry(ex, F.bodies[ids["send_pixels"]])
            n = 0
            for o in res.outcomes:
                if o.kind == "panic":
                    continue
                for c, syms in C.lin_paths(o):
                    n += 1
                    ok = len(syms) == 1 and syms[0].cls == "PIX" and syms[0].extra is None
                    it = syms[0].ev.args[1] if ok else None
                    okmap = isinstance(it, Agg) and it.name == "core::iter::map" and len(it.fields) == 2
                    src = it.fields[0] if okmap else None
                    src_ok = okmap and isinstance(src, Agg) and src.name == "core::iter::into_iter" and isinstance(src.fields[0], SymV) and src.fields[0].name == "pixels"
                    R.ob("C05b-stream-one-event", "%s|stream|event" % tag, ok and okmap and src_ok,
                         "send_pixels must pass the caller's stream, mapped element-wise, to one Interface::send_pixels call; got %r" % (it,))
                    got = None
                    if okmap:
                        f = it.fields[1]
                        px = SymV(impl["self_ty"], "pixel")
                        st2 = o.state.fork()
                        fr = res.frame
                        r = {"self_ty": getattr(f, "ty", None) or {"k": "fndef", "fn": f.fn} if isinstance(f, FnV) else getattr(f, "ty", None),
                             "args": [], "trait": "core::ops::function::FnMut"}
                        try:
                            outs = ex.call_fn_value(st2, fr, r, [f, Agg("tuple", None, None, [px])], None, None)
                            if len(outs) == 1:
                                got = words_of(outs[0][1])
                        except E.Undecided as e:
                            got = None
                    R.ob("C05a-encoding", "%s|stream|words" % tag, got == orc,
                         "a pixel stream encodes each pixel as %s but the pixel format requires %s" % (got, orc),
                         sample={"impl": tag, "path": "send_pixels", "words": [repr(w) for w in (got or [])]})
                    nn = [g for g in syms[0].ev.gargs if g.get("k") == "const"] if ok else []
                    R.ob("C05b-word-count", "%s|stream|N" % tag, len(nn) >= 1 and int(nn[0]["val"]) == len(orc),
                         "words per pixel N=%s, the format has %d" % ([g.get("val") for g in nn], len(orc)))
            R.floor("%s stream paths" % tag, n, 1)
