"""helpers shared by the rules: entry-point lookup (keyed on public API items, never on
private helper names), per-outcome views, model-init analysis."""
import os
import tys as T
import trace as TR
import exec as E
from poly import Poly, ONE, ZERO
from values import IntV, BoolV, Agg, SymV, Ptr, ITE, Undef

DISPLAY = "mipidsi::Display"
BUILDER = "mipidsi::builder::Builder"
MODEL_TRAIT = "mipidsi::models::Model"
IFACE = "mipidsi::interface::Interface"
DRAWTARGET = "embedded_graphics_core::draw_target::DrawTarget"
DCSCMD = "mipidsi::dcs::DcsCommand"


def one(lst, what):
    if len(lst) != 1:
        raise E.Undecided("anchor '%s' not found exactly once (found %d)" % (what, len(lst)))
    return lst[0]


def builder_init(F):
    return one(F.inherent_method(BUILDER, "init"), "Builder::init")


def display_method(F, name):
    return one(F.inherent_method(DISPLAY, name), "Display::" + name)


def display_methods(F, public_only=False):
    """all inherent + DrawTarget methods of Display that take &mut self (public_only: what a user can call -
    private helpers are then covered through the public methods that call them, where they are inlined)"""
    out = []
    for b in F.bodies.values():
        c = b["container"]
        if public_only and c.get("kind") == "inherent_impl" and not b.get("public", True):
            continue
        st = c.get("self_ty") or {}
        if b["kind"] != "AssocFn" or st.get("k") != "adt" or st.get("def") != DISPLAY:
            continue
        if c.get("kind") == "trait_impl" and c.get("trait", "").startswith("core::"):
            continue
        l1 = b["body"]["locals"][1]["ty"] if int(b["body"]["arg_count"]) >= 1 else None
        if l1 and l1.get("k") == "ref" and l1.get("mut"):
            out.append(b)
    return out


def drawtarget_method(F, name):
    return one(F.trait_impl_method(DRAWTARGET, name, self_adt=DISPLAY), "DrawTarget::" + name)


def model_inits(F):
    """[(model ADT def path, body rec)] of every non-mock `impl Model`"""
    out = []
    for b in F.trait_impl_method(MODEL_TRAIT, "init"):
        st = b["container"]["self_ty"]
        if st.get("k") == "adt" and not F.is_mock(b):
            out.append((st["def"], b))
    out.sort(key=lambda x: x[0])
    return out


def struct_field_index(F, adt, name):
    a = F.adts[adt]
    for i, f in enumerate(a["variants"][0]["fields"]):
        if f["name"] == name:
            return i
    raise E.Undecided("field %s.%s is gone" % (adt, name))


def get_field(ex, st, v, adt, name):
    """read field `name` of a struct value of type adt"""
    if isinstance(v, SymV):
        v = ex.expand_sym(v)
    if isinstance(v, ITE):
        from values import mk_ite
        return mk_ite(v.c, get_field(ex, st, v.a, adt, name), get_field(ex, st, v.b, adt, name))
    idx = struct_field_index(ex.F, adt, name)
    return v.fields[idx]


def deref_self(ex, st):
    """current value of the object behind the entry's `&mut self`"""
    return ex.read(st, ("O", "*self"), ())


def outcome_cond(o, only=None):
    """product of the branch decisions of an outcome (optionally only those whose atoms all
    satisfy `only`)"""
    c = ONE
    for p, val in o.state.facts.decisions():
        if only is not None and not all(only(a) for a in p.atoms()):
            continue
        c = c * (p if val else (ONE - p))
    return c


def decide_atoms(f, p, rounds=2):
    """replace the comparison atoms of p that the path facts decide (by entailment) by their value"""
    from poly import is_bool_atom
    for _ in range(rounds):
        p = f.simplify(p)
        sub = {}
        for a in p.atoms():
            if is_bool_atom(a) and a[0] in ("ge", "eq"):
                if f.implied_false(Poly.atom(a)):
                    sub[a] = 0
                elif f.implied_false(ONE - Poly.atom(a)):
                    sub[a] = 1
        if not sub:
            break
        p = p.subst(sub)
    return p


def equal_under(f, conds, a, b):
    """a == b on the path described by facts f and the extra 0/1 conditions conds (semantic: comparison atoms are
    decided by entailment, the rest by a two-sided entailment of a - b)"""
    f2 = f.copy()
    for c in conds:
        if c.const_value() == 1:
            continue
        if not f2.assume(c, 1):
            return True          # the path does not exist
    d = decide_atoms(f2, a - b)
    if d.const_value() == 0:
        return True
    return f2.entails_ge0(d, use_eq=True) is not None and f2.entails_ge0(-d, use_eq=True) is not None


def result_variant(v):
    """0 (Ok) / 1 (Err) of a Result value, else None"""
    if isinstance(v, Agg) and v.name == "core::result::Result":
        return v.variant
    return None


def err_payload(v):
    if isinstance(v, Agg) and v.name == "core::result::Result" and v.variant == 1:
        return v.fields[0]
    return None


def lin_paths(o, loops=None):
    """[(cond, [Sym])] linear classified event paths of an outcome"""
    out = []
    for c, items in TR.linearize(o.state.trace):
        out.append((c, TR.syms_of(items)))
    return out


def enum_variant_index(F, adt, name):
    for i, v in enumerate(F.adts[adt]["variants"]):
        if v["name"] == name:
            return i
    raise E.Undecided("variant %s::%s is gone" % (adt, name))


def variant_name(F, v):
    if isinstance(v, Agg) and v.kind == "adt" and v.name in F.adts:
        return F.adts[v.name]["variants"][v.variant]["name"]
    return None


def is_input_atom(a):
    """atoms that are inputs (not results of events / calls)"""
    return "#" not in repr(a)


def var(name, idx, n):
    """0/1 poly: symbolic enum `name` with n variants is variant idx"""
    if idx == 0:
        p = ONE
        for i in range(1, n):
            p = p - Poly.atom(("var", name, i, n))
        return p
    return Poly.atom(("var", name, idx, n))


def enum_is(F, adt, sym_name, variant_name_):
    n = len(F.adts[adt]["variants"])
    return var(sym_name, enum_variant_index(F, adt, variant_name_), n)


def run_pure(R, ex, rec, rule, key, args=None, subst=None, allow_panic=False):
    """interpret a loop-free pure function: exactly one return outcome, no panics.
    -> (value, state, result) or None (violation recorded)"""
    res = R.run_entry(ex, rec, args=args, subst=subst)
    rets = res.returns()
    pan = res.panics()
    if pan and not allow_panic:
        for o in pan:
            R.ob(rule + "-no-panic", "%s|panic|%s|%s" % (key, o.info.get("what") or o.info.get("kind"), o.info.get("cond")), False,
                 "%s can panic: %s" % (rec["pretty"], {k: v for k, v in o.info.items() if k != "stack"}),
                 "%s:%s" % (o.info["span"]["file"], o.info["span"]["line"]) if o.info.get("span") else None)
    if len(rets) != 1:
        if len(rets) > 1:
            st, v = ex.merge_states([o.state for o in rets], [o.value for o in rets])
            return v, st, res
        R.undecided(rule, key + "|returns", "%s has %d return paths" % (rec["pretty"], len(rets)))
        return None
    return rets[0].value, rets[0].state, res


def byte_poly(v):
    from poly import unfold_bits
    return unfold_bits(v.poly())


def bit(name, width, i):
    return Poly.atom(("bit", ("i", name, width, False), i))


def eval_poly(p, env):
    """value of polynomial p under env (atom -> int); comparison atoms are evaluated through
    their inner polynomial. Returns None if an atom is not determined by env."""
    from poly import atom_pred_poly
    total = 0
    for m, c in p.terms.items():
        t = c
        for a in m:
            if a in env:
                v = env[a]
            elif a[0] in ("ge", "eq"):
                iv = eval_poly(atom_pred_poly(a), env)
                if iv is None:
                    return None
                v = 1 if ((iv >= 0) if a[0] == "ge" else (iv == 0)) else 0
            elif a[0] == "bit" and a[1] in env:
                v = (env[a[1]] >> a[2]) & 1
            else:
                return None
            t *= v
        total += t
    return total


def base_atoms(p):
    """input atoms a polynomial depends on (looking through comparison atoms)"""
    from poly import atom_pred_poly
    out = set()
    for a in p.atoms():
        if a[0] in ("ge", "eq"):
            out |= base_atoms(atom_pred_poly(a))
        elif a[0] == "bit":
            out.add(a[1])
        else:
            out.add(a)
    return out


def loop_range(l, loops=None):
    """(start on entry, end) of the integer Range a loop iterates over, or None. The interpreter updates only the start
    of a Range it models exactly, so the loop records either the whole Range (older shape) or its `.start` with the end
    as the `next` events see it."""
    whole = [v for k, v in l["entry_values"].items() if isinstance(v, Agg) and (v.name or "").endswith("Range")]
    if len(whole) == 1 and isinstance(whole[0].fields[0], IntV) and isinstance(whole[0].fields[1], IntV):
        return whole[0].fields[0].poly(), whole[0].fields[1].poly()
    if whole:
        return None
    st0 = [v for k, v in l["entry_values"].items() if isinstance(v, IntV) and k.split("~")[0].endswith((".start", ".0"))]
    ends = [e.pointees[0] for c in l["cont"] for e in TR.flatten_events(c["trace"], loops)
            if e.kind == "call" and TR.classify(e).cls == "NEXT" and e.pointees and isinstance(e.pointees[0], Agg)
            and (e.pointees[0].name or "").endswith("Range")]
    if len(st0) == 1 and ends and all(isinstance(x.fields[1], IntV) and x.fields[1].poly() == ends[0].fields[1].poly() for x in ends):
        return st0[0].poly(), ends[0].fields[1].poly()
    return None


def known_atoms_violated(f):
    """does a comparison atom that the path has decided evaluate the other way under what is known now? (an atom over
    an if-then-else value - a wrapping subtraction, a min - is decided before the facts that fix its inner case)"""
    from poly import atom_pred_poly
    for a, v in list(f.known.items()):
        if a[0] not in ("ge", "eq"):
            continue
        inner = decide_atoms(f, atom_pred_poly(a))
        if a[0] == "ge":
            lo, hi = inner.range(f)
            t = 1 if (lo is not None and lo >= 0) or f.entails_ge0(inner) is not None else (0 if (hi is not None and hi < 0) or f.entails_ge0(-inner - 1) is not None else None)
        else:
            t = 1 if (f.entails_ge0(inner) is not None and f.entails_ge0(-inner) is not None) else \
                (0 if (f.entails_ge0(inner - 1) is not None or f.entails_ge0(-inner - 1) is not None) else None)
        if t is not None and t != v:
            return True
    return False


def contradictory(f, limit=2000):
    """do up to three of the linear facts add up to something whose range (from the types of the inputs) is negative?"""
    import itertools
    lin = list(f.lin)[:24]
    n = 0
    for k in (1, 2, 3):
        for combo in itertools.combinations(lin, k):
            n += 1
            if n > limit:
                return False
            t = combo[0]
            for x in combo[1:]:
                t = t + x
            _lo, hi = t.range(f)
            if hi is not None and hi < 0:
                return True
    return False


def equivalent_conditions(p, q, max_atoms=14, budget=6000):
    """are two 0/1 polynomials over comparison atoms of the inputs the same condition? Decided by a case split on the
    atoms, innermost first (an atom whose own polynomial is free of boolean atoms is assumed true / false in a Facts
    object, which rejects contradictory combinations by linear reasoning; its value is substituted into the rest).
    True only if p and q agree on every leaf that Facts cannot refute. A leaf that Facts fails to refute although it
    is infeasible makes the answer False (undecided = not equal): sound for a rule that fails closed."""
    from poly import is_bool_atom, atom_pred_poly
    from state import Facts
    if p == q:
        return True
    count = [0]

    def go(f, a_, b_):
        count[0] += 1
        if count[0] > budget:
            return False
        a_, b_ = f.simplify(a_), f.simplify(b_)
        d = a_ - b_
        if not d.terms:
            return True
        ats = [x for x in (a_.atoms() | b_.atoms()) if is_bool_atom(x)]
        if not ats:
            if a_ != b_ and os.environ.get("AIM_DEBUG_EQUIV"):
                print("EQUIV leaf differs:", repr(a_), "vs", repr(b_), "known", {repr(k)[:70]: v for k, v in f.known.items()}, "lin", [repr(x)[:80] for x in f.lin][:12])
            return a_ == b_
        if len(ats) > max_atoms:
            return False
        # innermost first: a comparison atom whose polynomial has no boolean atom inside (possibly nested in another
        # atom: min(w, h) == 0 is [ [h - w >= 0]*h - .. >= 0 ]); else a plain boolean / variant atom
        def inner_atoms(x, out, depth=0):
            if depth > 4:
                return
            for y in atom_pred_poly(x).atoms():
                if is_bool_atom(y):
                    out.add(y)
                    if y[0] in ("ge", "eq"):
                        inner_atoms(y, out, depth + 1)
        allb = set(ats)
        for x in ats:
            if x[0] in ("ge", "eq"):
                inner_atoms(x, allb)
        ready = [x for x in allb if x[0] in ("ge", "eq") and not any(is_bool_atom(y) for y in atom_pred_poly(x).atoms())]
        if not ready:
            ready = [x for x in allb if x[0] not in ("ge", "eq")]
        if not ready:
            return False
        x = sorted(ready, key=repr)[0]

        def deep(pl, val, depth=0):
            # substitute x := val, also inside comparison atoms (which are rebuilt from their new polynomial)
            from poly import ge0, eq0
            m = {}
            for y in pl.atoms():
                if y == x:
                    m[y] = val
                elif depth < 4 and y[0] in ("ge", "eq") and is_bool_atom(y):
                    inn = atom_pred_poly(y)
                    new_in = deep(inn, val, depth + 1)
                    if new_in != inn:
                        m[y] = ge0(new_in) if y[0] == "ge" else eq0(new_in)
            return pl.subst(m) if m else pl
        for val in (1, 0):
            f2 = f.copy()
            if not f2.assume(Poly.atom(x), val):
                continue        # this combination is contradictory
            if contradictory(f2):
                continue        # ... or becomes so by adding up to three facts and looking at the ranges of the inputs
            if not go(f2, deep(a_, val), deep(b_, val)):
                return False
        return True
    return go(Facts(), p, q)


def same_over_variants(p, q, limit=4096):
    """are two polynomials equal as functions? Decided when they are syntactically equal, or when they become so under
    every assignment of the enum-variant atoms and booleans they depend on (one variant per enum value, or the one
    without an atom); comparison atoms over those are evaluated, every other atom stays symbolic"""
    if p == q:
        return True
    import itertools
    from poly import atom_pred_poly
    ats = sorted(base_atoms(p) | base_atoms(q), key=repr)
    groups, free = {}, []
    for a in ats:
        if a[0] == "var":
            groups.setdefault(a[1], []).append(a)
        elif a[0] == "b":
            free.append(a)
    if not groups and not free:
        return False
    choices = [[None] + g for g in groups.values()] + [[0, 1] for _ in free]
    n = 1
    for c in choices:
        n *= len(c)
    if n > limit:
        return False
    gl = list(groups.values())

    def inst(x, env):
        m = dict(env)
        for a in x.atoms():
            if a[0] in ("ge", "eq"):
                iv = eval_poly(atom_pred_poly(a), env)
                if iv is not None:
                    m[a] = 1 if ((iv >= 0) if a[0] == "ge" else (iv == 0)) else 0
        return x.subst(m)
    for combo in itertools.product(*choices):
        env = {}
        for g, pick in zip(gl, combo[:len(gl)]):
            for a in g:
                env[a] = 1 if a is pick else 0
        for a, v in zip(free, combo[len(gl):]):
            env[a] = v
        if inst(p, env) != inst(q, env):
            return False
    return True


# ----------------------------------------------------------------------------- drawing harness
ORI = "mipidsi::options::orientation::Orientation"
ROTATION = "mipidsi::options::orientation::Rotation"
OPTS = "mipidsi::options::ModelOptions"
ROT_NAMES = ["Deg0", "Deg90", "Deg180", "Deg270"]


def sym16(name):
    from poly import sym_int
    return sym_int(name, 16, False)


class Geo:
    """symbols of the display configuration and the oracle geometry for one orientation"""

    def __init__(self, q, m):
        self.q, self.m = q, m
        self.w, self.h = sym16("*self.options.display_size.0"), sym16("*self.options.display_size.1")
        self.ox, self.oy = sym16("*self.options.display_offset.0"), sym16("*self.options.display_offset.1")
        self.W, self.H = sym16("<M>::FRAMEBUFFER_SIZE.0"), sym16("<M>::FRAMEBUFFER_SIZE.1")
        self.MY = q in (2, 3)
        self.MV = q in (1, 3)
        self.MX = (q in (1, 2)) != m
        self.lw, self.lh = (self.w, self.h) if q in (0, 2) else (self.h, self.w)

    def i_init(self):
        """facts guaranteed by Builder::init (C09) for every display that exists"""
        return [self.w - 1, self.h - 1, self.W - self.w - self.ox, self.H - self.h - self.oy]

    def panel(self, lx, ly):
        """panel position of logical (lx, ly): rotate clockwise by q quarter turns, then mirror left-right"""
        w, h = self.w, self.h
        px, py = [(lx, ly), (w - 1 - ly, lx), (w - 1 - lx, h - 1 - ly), (ly, h - 1 - lx)][self.q]
        if self.m:
            px = w - 1 - px
        return px, py

    def decode(self, c, p):
        """framebuffer cell a MIPI controller addresses for column c / page p under (MY, MX, MV)"""
        X, Y = (p, c) if self.MV else (c, p)
        if self.MX:
            X = self.W - 1 - X
        if self.MY:
            Y = self.H - 1 - Y
        return X, Y

    def col_limit(self):
        return self.H if self.MV else self.W

    def row_limit(self):
        return self.W if self.MV else self.H


def display_init_mem(ex, F, rec, q, m):
    """initial memory with `*self` a symbolic Display whose orientation is the concrete (q, m)"""
    from values import BoolV
    l1 = rec["body"]["locals"][1]["ty"]
    dty = l1["ty"]
    d = ex.expand_sym(SymV(dty, "*self"))
    oi = struct_field_index(F, DISPLAY, "options")
    opts = ex.expand_sym(d.fields[oi])
    ri = struct_field_index(F, OPTS, "orientation")
    rot = Agg("adt", ROTATION, enum_variant_index(F, ROTATION, ROT_NAMES[q]), [])
    ori = Agg("adt", ORI, 0, [rot, BoolV(Poly.const(1 if m else 0))])
    fs = list(opts.fields)
    fs[ri] = ori
    opts = Agg("adt", OPTS, 0, fs, opts.ty)
    ds = list(d.fields)
    ds[oi] = opts
    ex.root_types[("O", "*self")] = dty
    return {("O", "*self"): Agg("adt", DISPLAY, 0, ds, dty)}


def ctor_order(R, F, adt, nargs, rule, cfg):
    """field i of adt holds constructor argument order[i] (constructors store their arguments)"""
    from poly import sym_int
    ex = R.executor(F)
    new = one(F.inherent_method(adt, "new"), adt + "::new")
    args = [IntV(16, False, p=sym_int("p%d" % i, 16, False)) for i in range(nargs)]
    r = run_pure(R, ex, new, rule, "%s|%s::new" % (cfg, adt.split("::")[-1]), args=args)
    if r is None or not isinstance(r[0], Agg):
        return None
    order = []
    for f in r[0].fields:
        a = f.poly().is_atom()
        if a is None:
            return None
        order.append(int(a[1][1:]))
    return order


def ctor_args(v, order):
    out = [None] * len(order)
    for i, f in enumerate(v.fields):
        out[order[i]] = f.poly()
    return out


def take_while_admits(R, F, it):
    """number of items a `take_while(counting closure)` lets through when the stream is long enough, or (None, why).
    The closure body is interpreted as a function of its captured state: exactly one captured field c may change, by +1
    per call; the verdict must be one comparison `E - c >= 0` (or its negation) with E over the other captured fields.
    Call k (k = 1, 2, ..) then passes iff k <= E - c0 + 1, so E - c0 + 1 items are admitted (c0: the captured start value)."""
    cl = it.fields[1] if isinstance(it, Agg) and len(it.fields) > 1 else None
    rec = F.bodies.get(getattr(cl, "name", None)) if isinstance(cl, Agg) else None
    if rec is None:
        return None, "no body for the predicate %r" % (cl,)
    ex = R.executor(F)
    ex.keep_dead_entry_locals = True
    res = R.run_entry(ex, rec)
    rets = res.returns()
    if len(rets) != 1:
        return None, "the predicate has %d return paths" % len(rets)
    o = rets[0]
    env = o.state.mem.get(("O", "*arg1"))
    r = o.value.p if isinstance(o.value, BoolV) else None
    if not isinstance(env, Agg) or r is None or len(env.fields) != len(cl.fields):
        return None, "unexpected shape of the predicate's state %r / verdict %r" % (env, o.value)
    pre = [Poly.atom(a) for a in sorted((a for a in set().union(*[x.poly().atoms() for x in env.fields if isinstance(x, IntV)]) | r.atoms()
                                         if a[0] == "i" and str(a[1]).startswith("*arg1.up")), key=repr)]
    byname = {}
    for p_ in pre:
        byname[list(p_.atoms())[0][1]] = p_
    counter = None
    for i, x in enumerate(env.fields):
        nm = "*arg1.up%d" % i
        if not isinstance(x, IntV):
            continue
        p0 = byname.get(nm)
        if p0 is None:
            continue
        if x.poly() == p0:
            continue
        if x.poly() == p0 + ONE and counter is None:
            counter = (i, p0)
        else:
            return None, "captured field %d changes from %r to %r" % (i, p0, x.poly())
    if counter is None:
        return None, "the predicate keeps no counter"
    ci, c = counter
    ca = list(c.atoms())[0]
    e = None
    ats = [a for a in r.atoms()]
    if len(ats) == 1 and ats[0][0] == "ge":
        p = Poly(dict(ats[0][1])) if not isinstance(ats[0][1], Poly) else ats[0][1]
        coef = p.terms.get((ca,), 0)
        if r == Poly.atom(ats[0]) and coef == -1:
            e = p + c
        elif r == ONE - Poly.atom(ats[0]) and coef == 1:
            e = -p - ONE + c
    if e is None or ca in e.atoms():
        return None, "the verdict %r is not one comparison of the counter with a limit" % (r,)
    sub = {}
    for i, x in enumerate(cl.fields):
        nm = "*arg1.up%d" % i
        if nm in byname:
            if not isinstance(x, IntV):
                return None, "captured field %d is %r" % (i, x)
            sub[list(byname[nm].atoms())[0]] = x.poly()
    return (e - c + ONE).subst(sub), None


def flat_field_types(F, adt, prefix="", path=(), depth=0):
    """leaf fields of a crate struct, looking through fields that are themselves plain (non-generic) crate structs
    (`span: RowSpan { x_left, x_right, y }`): [(dotted name, index path, type)]"""
    out = []
    a = F.adts.get(adt)
    if a is None or a.get("kind") != "struct":
        return out
    for i, f in enumerate(a["variants"][0]["fields"]):
        t = f["ty"]
        sub = F.adts.get(t.get("def")) if t.get("k") == "adt" else None
        if sub is not None and depth < 2 and sub.get("kind") == "struct" and sub["id"].startswith(F.crate + "::") and not t.get("args") \
                and not (sub.get("generics") or {}).get("params"):
            out.extend(flat_field_types(F, t["def"], prefix + f["name"] + ".", path + (i,), depth + 1))
        else:
            out.append((prefix + f["name"], path + (i,), t))
    return out


def flat_fields(ex, F, adt, v):
    """{dotted name: value} of a struct value, nested plain crate structs flattened (symbols expanded on the way)"""
    out = {}
    for name, path, _t in flat_field_types(F, adt):
        x = v
        for i in path:
            if isinstance(x, SymV):
                x = ex.expand_sym(x)
            if not isinstance(x, Agg) or i >= len(x.fields):
                x = None
                break
            x = x.fields[i]
        out[name] = x
    return out
