"""C14 - the address-mode byte is the exact MIPI encoding of colour order / orientation / refresh order."""
import exec as E
from poly import Poly, ONE, ZERO, b_xor, unfold_bits
from values import Agg, SymV, IntV
from rules import common as C

LEVEL = "proof"
SAM = "mipidsi::dcs::set_address_mode::SetAddressMode"
ROT = "mipidsi::options::orientation::Rotation"
CO = "mipidsi::options::ColorOrder"
VRO = "mipidsi::options::VerticalRefreshOrder"
HRO = "mipidsi::options::HorizontalRefreshOrder"


def orientation_bits(F, oname):
    """(MY, MX, MV) as polynomials of a symbolic Orientation named oname. Oracle derived from
    the controller geometry (DESIGN C01/C14), not from the code."""
    r = oname + ".rotation"
    d90 = C.enum_is(F, ROT, r, "Deg90")
    d180 = C.enum_is(F, ROT, r, "Deg180")
    d270 = C.enum_is(F, ROT, r, "Deg270")
    m = Poly.atom(("b", oname + ".mirrored"))
    MY = d180 + d270
    MV = d90 + d270
    MX = b_xor(d90 + d180, m)
    return MY, MX, MV


def keep(name, bits):
    return sum((1 << i) * C.bit(name, 8, i) for i in bits) if bits else ZERO


def inner_byte(ex, v):
    if isinstance(v, SymV):
        v = ex.expand_sym(v)
    return v.fields[0]


def run(R):
    R.trusted = ["rustc nightly MIR construction", "AIM interpreter: bit-sliced values are canonical multilinear polynomials",
                 "MIPI DCS set_address_mode bit layout (B7 MY, B6 MX, B5 MV, B4 ML, B3 BGR, B2 MH) from the property text"]
    R.explanation = ("Every public constructor / updater of SetAddressMode is interpreted on a fully symbolic starting byte (8 free bits) "
                     "and symbolic enum arguments; the resulting byte, a canonical polynomial over the input bits and enum-variant "
                     "indicators, must equal the oracle polynomial. This decides all 256 starting bytes x all argument values at once; "
                     "disjoint write masks give order independence.")
    R.witnesses('W3', 'C14-witness-private-byte')
    for cfg in R.configs:
        F = R.facts(cfg)

        def method(name):
            return C.one(F.inherent_method(SAM, name), "SetAddressMode::" + name)
        bgr = C.enum_is(F, CO, "color_order", "Bgr")
        MY, MX, MV = orientation_bits(F, "orientation")
        vb = C.enum_is(F, VRO, "refresh_order.vertical", "BottomToTop")
        hr = C.enum_is(F, HRO, "refresh_order.horizontal", "RightToLeft")
        cases = [
            ("with_color_order", keep("self.0", [0, 1, 2, 4, 5, 6, 7]) + 8 * bgr),
            ("with_orientation", keep("self.0", [0, 1, 2, 3, 4]) + 128 * MY + 64 * MX + 32 * MV),
            ("with_refresh_order", keep("self.0", [0, 1, 3, 5, 6, 7]) + 16 * vb + 4 * hr),
            ("new", 128 * MY + 64 * MX + 32 * MV + 16 * vb + 8 * bgr + 4 * hr),
        ]
        for name, oracle in cases:
            ex = R.executor(F)
            r = C.run_pure(R, ex, method(name), "C14", "%s|%s" % (cfg, name))
            if r is None:
                continue
            v, st, res = r
            got = unfold_bits(inner_byte(ex, v).poly())
            R.ob("C14-byte-equals-oracle", "%s|SetAddressMode::%s" % (cfg, name), got == oracle,
                 "SetAddressMode::%s yields byte  %r  but the MIPI encoding is  %r" % (name, got, oracle),
                 sample={"fn": name, "code": repr(got), "oracle": repr(oracle)})
        # From<&ModelOptions> and Default
        ex = R.executor(F)
        frm = C.one(F.trait_impl_method("core::convert::From", "from", self_adt=SAM), "From<&ModelOptions> for SetAddressMode")
        r = C.run_pure(R, ex, frm, "C14", "%s|from" % cfg)
        if r is not None:
            v, st, res = r
            got = unfold_bits(inner_byte(ex, v).poly())
            bgr2 = C.enum_is(F, CO, "*options.color_order", "Bgr")
            MY2, MX2, MV2 = orientation_bits(F, "*options.orientation")
            vb2 = C.enum_is(F, VRO, "*options.refresh_order.vertical", "BottomToTop")
            hr2 = C.enum_is(F, HRO, "*options.refresh_order.horizontal", "RightToLeft")
            oracle = 128 * MY2 + 64 * MX2 + 32 * MV2 + 16 * vb2 + 8 * bgr2 + 4 * hr2
            R.ob("C14-byte-equals-oracle", "%s|From<&ModelOptions>" % cfg, got == oracle,
                 "SetAddressMode::from(&options) yields  %r  but the MIPI encoding of the options is  %r" % (got, oracle),
                 sample={"fn": "from", "code": repr(got), "oracle": repr(oracle)})
        ex = R.executor(F)
        dfl = C.one(F.trait_impl_method("core::default::Default", "default", self_adt=SAM), "Default for SetAddressMode")
        r = C.run_pure(R, ex, dfl, "C14", "%s|default" % cfg)
        if r is not None:
            got = inner_byte(ex, r[0]).poly()
            R.ob("C14-byte-equals-oracle", "%s|default" % cfg, got == ZERO, "SetAddressMode::default() is %r, must be 0" % (got,))
        # serialisation: opcode 0x36, one parameter byte = the byte
        ex = R.executor(F)
        ins = C.one(F.trait_impl_method(C.DCSCMD, "instruction", self_adt=SAM), "instruction")
        r = C.run_pure(R, ex, ins, "C14", "%s|instruction" % cfg)
        if r is not None:
            R.ob("C14-opcode", "%s|instruction" % cfg, isinstance(r[0], IntV) and r[0].const() == 0x36,
                 "SetAddressMode::instruction() = %r, MIPI set_address_mode is 0x36" % (r[0],))
        # the tuple field is private: bytes arise only from the constructors above
        a = F.adts[SAM]
        R.ob("C14-private-field", "%s|field-privacy" % cfg, not a["variants"][0]["fields"][0]["public"],
             "SetAddressMode's byte is public: arbitrary bytes (bits 1-0 set) become constructible")
        extra = sorted(b["name"] for b in F.bodies.values()
                       if b["container"].get("kind") == "inherent_impl" and b["container"]["self_ty"].get("def") == SAM
                       and b["name"] not in ("new", "with_color_order", "with_orientation", "with_refresh_order")
                       and b["body"]["locals"][0]["ty"].get("def") == SAM)
        if extra:
            R.notes.append("unverified-new constructors of SetAddressMode (no oracle entry): %s" % extra)
