"""C10 - after set_orientation the display behaves as if built with that orientation."""
import exec as E
import trace as TR
from poly import Poly, ONE, ZERO, unfold_bits, sym_int
from values import Agg, SymV, IntV, BoolV, veq, vkey
from rules import common as C
from rules.C14 import orientation_bits, keep, inner_byte, SAM, ROT

LEVEL = "proof"
OPTS = "mipidsi::options::ModelOptions"


def options_of(ex, st):
    return C.get_field(ex, st, C.deref_self(ex, st), C.DISPLAY, "options")


def run(R):
    R.trusted = ["rustc nightly MIR construction", "AIM interpreter", "C14 (address-mode algebra)", "C18 (write_command serialisation)",
                 "C01/C02/C08 are proved from the Display state alone, so equal state implies equal subsequent behaviour"]
    R.explanation = ("Inductive invariant: madctl == encode(options) and every orientation-dependent behaviour reads options.orientation. "
                     "set_orientation is interpreted on a symbolic display and symbolic orientation (write_command abstract): on success it "
                     "must send SetAddressMode(with_orientation(old madctl, o)) once, store exactly that value as madctl and store o as "
                     "options.orientation (the state a fresh build with o would have, colour/refresh bits preserved); on error it must not "
                     "store o. Readers: orientation() and size() are functions of options.orientation; no other method writes options or madctl.")
    for cfg in R.configs:
        F = R.facts(cfg)
        wc = F.trait_default_method("mipidsi::dcs::InterfaceExt", "write_command")
        ex = R.executor(F)
        ex.abstract_defs = {wc["id"]}
        rec = C.display_method(F, "set_orientation")
        res = R.run_entry(ex, rec)
        tag = "%s|set_orientation" % cfg
        MY, MX, MV = orientation_bits(F, "orientation")
        want_byte = keep("*self.madctl.0", [0, 1, 2, 3, 4]) + 128 * MY + 64 * MX + 32 * MV
        new_o = ex.mk_sym({"k": "adt", "def": "mipidsi::options::orientation::Orientation", "args": []}, "orientation")
        old_o_key = None
        nsucc = 0
        for o in res.outcomes:
            if o.kind == "panic":
                R.ob("C10-no-panic", "%s|panic|%s" % (tag, o.info.get("cond")), False, "set_orientation can panic: %s" % (o.info,))
                continue
            opts = options_of(ex, o.state)
            ori = C.get_field(ex, o.state, opts, OPTS, "orientation")
            if isinstance(ori, SymV):
                ori = ex.expand_sym(ori)
            madctl = C.get_field(ex, o.state, C.deref_self(ex, o.state), C.DISPLAY, "madctl")
            stored_new = isinstance(ori, Agg) and vkey(ori) == vkey(ex.expand_sym(new_o))
            init_o = ex.expand_sym(SymV(new_o.ty, "*self.options.orientation"))
            stored_old = isinstance(ori, Agg) and vkey(ori) == vkey(init_o)
            for c, syms in C.lin_paths(o):
                word = [repr(s) for s in syms]
                if C.result_variant(o.value) == 0:
                    nsucc += 1
                    w = [s for s in syms if s.cls == "WCMD"]
                    ok = len(syms) == 1 and len(w) == 1 and isinstance(w[0].extra, (Agg, SymV))
                    sent = unfold_bits(inner_byte(ex, w[0].extra).poly()) if ok else None
                    R.ob("C10-sends-updated-madctl", "%s|sent" % tag, ok and sent == want_byte,
                         "set_orientation must send SetAddressMode with only the orientation bits replaced; sends %r, expected %r"
                         % (sent, want_byte), sample={"sent_byte": repr(sent), "oracle": repr(want_byte)})
                    kept = unfold_bits(inner_byte(ex, madctl).poly())
                    R.ob("C10-stores-madctl", "%s|madctl" % tag, kept == want_byte,
                         "after success the cached address mode is %r, not the value sent %r" % (kept, want_byte))
                    R.ob("C10-stores-orientation", "%s|options.orientation" % tag, stored_new,
                         "after a successful set_orientation(o) the stored options.orientation is %r instead of o: orientation(), "
                         "size()/bounding_box() and the window offsets keep following the previous orientation" % (ori,),
                         "%s:%s" % (rec["span"]["file"], rec["span"]["line"]),
                         sample={"stored_orientation": repr(ori), "expected": repr(ex.expand_sym(new_o))})
                else:
                    R.ob("C10-error-keeps-orientation", "%s|error|%s" % (tag, word), stored_old,
                         "a failed set_orientation leaves options.orientation = %r (the controller did not acknowledge the change)" % (ori,))
        R.floor("%s success paths" % tag, nsucc, 1)
        # readers
        ex = R.executor(F)
        r = C.run_pure(R, ex, C.one(F.inherent_method(C.DISPLAY, "orientation"), "Display::orientation"), "C10", "%s|orientation()" % cfg)
        if r is not None:
            v = r[0]
            if isinstance(v, SymV):
                v = ex.expand_sym(v)
            want = ex.expand_sym(SymV(new_o.ty, "*self.options.orientation"))
            R.ob("C10-orientation-getter", "%s|orientation()" % cfg, vkey(v) == vkey(want), "orientation() returns %r" % (v,))
        ex = R.executor(F)
        size = C.one(F.trait_impl_method("embedded_graphics_core::geometry::OriginDimensions", "size", self_adt=C.DISPLAY), "OriginDimensions::size")
        r = C.run_pure(R, ex, size, "C10", "%s|size()" % cfg)
        if r is not None:
            v = r[0]
            w = sym_int("*self.options.display_size.0", 16, False)
            h = sym_int("*self.options.display_size.1", 16, False)
            rn = "*self.options.orientation.rotation"
            vert = C.enum_is(F, ROT, rn, "Deg90") + C.enum_is(F, ROT, rn, "Deg270")
            ok = isinstance(v, Agg) and len(v.fields) == 2 and v.fields[0].poly() == (ONE - vert) * w + vert * h \
                and v.fields[1].poly() == (ONE - vert) * h + vert * w
            R.ob("C10-size-follows-orientation", "%s|size()" % cfg, ok,
                 "size() = %r must be (w,h) for 0/180 and (h,w) for 90/270 of the stored orientation" % (v,),
                 sample={"size": repr(v)})
        # frame: nothing else writes options / madctl
        n = 0
        for rec2 in C.display_methods(F, public_only=True):
            if rec2["name"] == "set_orientation":
                continue
            n += 1
            ex = R.executor(F)
            try:
                # the frame property does not depend on the orientation: fix one to keep the drawing methods cheap
                g0 = C.Geo(0, False)
                im = C.display_init_mem(ex, F, rec2, 0, False)
                d0 = im[("O", "*self")]
                res2 = R.run_entry(ex, rec2, init_mem=im, assume=g0.i_init())
            except E.Undecided as e:
                R.undecided("C10-frame", "%s|%s" % (cfg, rec2["pretty"]), str(e))
                continue
            bad = []
            for o in res2.outcomes:
                if o.kind != "return":
                    continue
                d = C.deref_self(ex, o.state)
                for fld in ("options", "madctl"):
                    cur = C.get_field(ex, o.state, d, C.DISPLAY, fld)
                    ini = C.get_field(ex, o.state, d0, C.DISPLAY, fld)
                    if vkey(cur) != vkey(ini) and repr(cur) != repr(ini):
                        bad.append("%s=%r" % (fld, cur))
            R.ob("C10-frame", "%s|%s" % (cfg, rec2["pretty"]), not bad,
                 "a method other than set_orientation changes options / the cached address mode: %s" % bad[:2])
        R.floor("%s|framed methods" % cfg, n, 10)
