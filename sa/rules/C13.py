"""C13 - sleep state tracking and 120 ms sleep-in/out spacing over any history (inductive:
per-method obligations O1-O4 of DESIGN.md)."""
import trace as TR
import exec as E
from poly import ONE, ZERO, sym_bool, Poly
from values import Agg, SymV, BoolV
from rules import common as C

LEVEL = "proof"
SLEEP_IN, SLEEP_OUT = 0x10, 0x11
MIN_NS = 120_000_000


def sleeping_of(ex, st):
    return C.get_field(ex, st, C.deref_self(ex, st), C.DISPLAY, "sleeping")


def check_sleep_method(R, F, cfg, name, opcode, flag):
    ex = R.executor(F)
    rec = C.display_method(F, name)
    res = R.run_entry(ex, rec)
    tag = "%s|Display::%s" % (cfg, name)
    init = sym_bool("*self.sleeping")
    nsucc = 0
    for o in res.outcomes:
        if o.kind == "panic":
            R.ob("C13-no-panic", "%s|panic|%s" % (tag, o.info.get("cond")), False, "%s can panic: %s" % (name, o.info))
            continue
        sl = sleeping_of(ex, o.state)
        for c, syms in C.lin_paths(o):
            word = [repr(s) for s in syms]
            cmds = [s for s in syms if s.cls == "CMD"]
            if C.result_variant(o.value) == 0:
                nsucc += 1
                ok_word = len(cmds) == 1 and cmds[0].ops == {opcode} and cmds[0].params == [] and syms[0] is cmds[0]
                R.ob("C13-command", "%s|word|%s" % (tag, word), ok_word,
                     "%s must send exactly CMD(0x%02X) first, got %s" % (name, opcode, word), TR.where(syms[0].ev) if syms else None,
                     sample={"method": name, "word": word, "sleeping_after": repr(sl)})
                total = sum((s.ns or 0) for s in syms[1:] if s.cls == "DELAY") if ok_word else 0
                R.ob("C13-delay-120ms", "%s|delay|%s" % (tag, word), total >= MIN_NS,
                     "only %d ns of delay after the sleep command before %s returns (need >= 120 ms)" % (total, name),
                     TR.where(cmds[0].ev) if cmds else None)
                R.ob("C13-flag-after-success", "%s|flag" % tag, isinstance(sl, BoolV) and sl.p == Poly.const(flag),
                     "after a successful %s the sleeping flag is %r, must be %s" % (name, sl, bool(flag)))
                others = [s for s in syms if s.cls not in ("CMD", "DELAY")]
                R.ob("C13-no-other-events", "%s|others|%s" % (tag, word), not others, "unexpected events in %s: %s" % (name, others))
            else:
                R.ob("C13-flag-unchanged-on-error", "%s|errflag|%s" % (tag, word), isinstance(sl, BoolV) and sl.p == init,
                     "on a failed %s the sleeping flag becomes %r although the command was not sent successfully" % (name, sl))
    R.floor("%s success paths" % tag, nsucc, 1)


def run(R):
    R.trusted = ["rustc nightly MIR construction", "AIM interpreter", "DelayNs unit semantics (ns/us/ms)",
                 "all Display methods take &mut self (sequential histories)"]
    R.explanation = ("Invariant: Display.sleeping equals the state implied by the last sleep-class command sent. Decided per method on "
                     "polymorphic MIR: init constructs sleeping=false and every built-in model's init ends with sleep-out followed by "
                     ">=120 ms; sleep/wake send exactly their command, then >=120 ms of delay, then set the flag (unchanged on error "
                     "paths); no other method writes the flag or emits a sleep-class command. Hence the property for every history.")
    R.witnesses('W1', 'C13-witness-private-state')
    for cfg in R.configs:
        F = R.facts(cfg)
        # O2 / O3
        check_sleep_method(R, F, cfg, "sleep", SLEEP_IN, 1)
        check_sleep_method(R, F, cfg, "wake", SLEEP_OUT, 0)
        # is_sleeping reads the flag
        ex = R.executor(F)
        rec = C.one(F.inherent_method(C.DISPLAY, "is_sleeping"), "Display::is_sleeping")
        res = R.run_entry(ex, rec)
        vals = [o.value for o in res.outcomes if o.kind == "return"]
        R.ob("C13-is-sleeping-reads-flag", "%s|is_sleeping" % cfg,
             len(vals) == 1 and isinstance(vals[0], BoolV) and vals[0].p == sym_bool("*self.sleeping"),
             "is_sleeping() returns %r instead of the tracked flag" % (vals,))
        # O1: init constructs sleeping = false
        ex = R.executor(F)
        res = R.run_entry(ex, C.builder_init(F))
        n = 0
        for o in res.outcomes:
            if o.kind == "return" and C.result_variant(o.value) == 0:
                n += 1
                d = o.value.fields[0]
                sl = C.get_field(ex, o.state, d, C.DISPLAY, "sleeping")
                R.ob("C13-init-awake", "%s|Builder::init|sleeping" % cfg, isinstance(sl, BoolV) and sl.p == ZERO,
                     "Builder::init constructs the display with sleeping=%r" % (sl,))
        R.floor("%s|init success paths" % cfg, n, 1)
        # O4 frame: no other &mut self method changes the flag or emits sleep-class commands
        nm = 0
        for rec in C.display_methods(F, public_only=True):
            if rec["name"] in ("sleep", "wake"):
                continue
            nm += 1
            ex = R.executor(F)
            try:
                # the frame property does not depend on the orientation: fix one to keep the drawing methods cheap
                g = C.Geo(0, False)
                res = R.run_entry(ex, rec, init_mem=C.display_init_mem(ex, F, rec, 0, False), assume=g.i_init())
            except E.Undecided as e:
                R.undecided("C13-frame", "%s|%s|undecided" % (cfg, rec["pretty"]), str(e))
                continue
            init = sym_bool("*self.sleeping")
            bad_flag = []
            bad_cmd = []
            for o in res.outcomes:
                if o.kind == "return":
                    sl = sleeping_of(ex, o.state)
                    if not (isinstance(sl, BoolV) and sl.p == init):
                        bad_flag.append(repr(sl))
                for ev in TR.flatten_events(o.state.trace, res.loops):
                    s = TR.classify(ev)
                    if s is not None and s.cls == "CMD" and (not s.ops or (s.ops & {SLEEP_IN, SLEEP_OUT})):
                        bad_cmd.append("%r @%s" % (s, TR.where(ev)))
            R.ob("C13-frame", "%s|%s" % (cfg, rec["pretty"]), not bad_flag and not bad_cmd,
                 "method other than sleep/wake changes the sleeping flag (%s) or sends a sleep-class / non-constant command (%s)"
                 % (bad_flag[:2], bad_cmd[:2]))
        R.floor("%s|framed Display methods" % cfg, nm, 9)
        # O1b: every built-in model init ends awake with >= 120 ms after the last sleep-out
        models = C.model_inits(F)
        R.floor("%s impl Model" % cfg, len(models), 14)
        for adt, mrec in models:
            mres = R.run_entry(R.executor(F), mrec)
            nsucc = 0
            for o in mres.outcomes:
                if o.kind != "return" or C.result_variant(o.value) != 0:
                    continue
                for c, syms in C.lin_paths(o):
                    nsucc += 1
                    sc = [(i, s) for i, s in enumerate(syms) if s.cls == "CMD" and s.ops and (s.ops & {SLEEP_IN, SLEEP_OUT})]
                    last_ok = bool(sc) and sc[-1][1].ops == {SLEEP_OUT} and all(s.ops == {SLEEP_OUT} for _, s in sc)
                    after = sum((s.ns or 0) for s in syms[sc[-1][0] + 1:] if s.cls == "DELAY") if sc else 0
                    R.ob("C13-model-init-awake-120ms", "%s|%s" % (cfg, adt), last_ok and after >= MIN_NS,
                         "model init must end awake (sleep-out last, no sleep-in) with >= 120 ms of delay after it; sleep-class "
                         "commands %s, delay after the last one %d ns" % ([repr(s) for _, s in sc], after),
                         TR.where(sc[-1][1].ev) if sc else None,
                         sample={"model": adt, "sleep_class": [repr(s) for _, s in sc], "delay_after_ns": after})
            R.floor("%s|%s success paths" % (cfg, adt), nsucc, 1)
