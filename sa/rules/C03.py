"""C03 - batched draw_iter is equivalent to setting the pixels one by one, in order.

Decided here (level 'other'): the refinement STEP relations of the two accumulators and of draw_batch, one call /
one loop iteration at a time, on symbolic states. The induction over the stream and the controller's row-major
fill of a window are argued in DESIGN.md, not mechanised.

Abstraction: a row accumulator (first, x_left, x_right, y, colours) stands for the pending pixel sequence
[] if `first`, else [((x_left + k, y), colours[k]) | k < len] (with len = x_right - x_left + 1, an invariant found
by the loop analysis); a block accumulator (first, x_left, x_right, y_top, y_bottom, colours) for the pending rows in
row-major order. Contents of the heapless Vecs are uninterpreted sequence terms (seq_empty / seq_push / seq_concat).
Step relation for each pulled item p:   pending(before) ++ [p]  ==  emitted ++ pending(after)   and at the end of
the stream   pending(before) == emitted, pending(after) == []."""
import exec as E
import trace as TR
from poly import Poly, ONE, ZERO, sym_int, sym_bool
from values import Agg, SymV, IntV, BoolV, Ptr, ITE, Term, vkey
from rules import common as C
from rules import draw as D

LEVEL = "other"
HV = "heapless::vec::Vec"
BOUND = 65534


def resolve(facts, v, depth=0):
    """simplify a value under path facts: if-then-else with a decided condition -> the branch taken"""
    if depth > 8:
        return v
    if isinstance(v, ITE):
        c = facts.simplify(v.c).const_value()
        if c == 1:
            return resolve(facts, v.a, depth + 1)
        if c == 0:
            return resolve(facts, v.b, depth + 1)
        return v
    if isinstance(v, IntV):
        return IntV(v.bits, v.signed, p=facts.simplify(v.poly()))
    if isinstance(v, BoolV):
        return BoolV(facts.simplify(v.p))
    if isinstance(v, Agg):
        return Agg(v.kind, v.name, v.variant, [resolve(facts, f, depth + 1) for f in v.fields], v.ty, v.extra)
    if isinstance(v, Term):
        return Term(v.fn, [resolve(facts, a, depth + 1) for a in v.args], v.ty)
    return v


def vec_parts(ex, v):
    """(length poly, content value) of a heapless Vec value"""
    if isinstance(v, Agg) and v.name == HV:
        ln = v.fields[0].poly() if v.fields and isinstance(v.fields[0], IntV) else None
        ct = v.fields[1] if len(v.fields) > 1 else None
        return ln, ct
    if isinstance(v, SymV):
        return sym_int("len(%s)" % v.name, ex.pbits, False), SymV({"k": "slice", "ty": None}, "content(%s)" % v.name)
    return None, None


def same_content(a, b):
    if a is None or b is None:
        return False
    ka, kb = vkey(a), vkey(b)
    if ka == kb:
        return True
    # symbols are identified by name (their slice types may carry / lack the element type)
    return isinstance(a, SymV) and isinstance(b, SymV) and a.name == b.name


def is_term(v, fn, nargs):
    return isinstance(v, Term) and v.fn == fn and len(v.args) == nargs


def eq(f, a, b):
    return C.equal_under(f, [], a, b)


class Acc:
    """an accumulator struct of batch.rs and the roles of its fields, by the property's anchor names"""

    def __init__(self, F, rec):
        self.rec = rec
        self.adt = rec["container"]["self_ty"]["def"]
        self.F = F
        # leaf fields, looking through plain helper structs (`span: RowSpan {..}`); rules speak about a leaf by the last
        # component of its name, symbols carry the full dotted name
        flat = C.flat_field_types(F, self.adt)
        base = [n.split(".")[-1] for n, _p, _t in flat]
        self.dotted = {}
        fs = []
        for (n, _p, t), b_ in zip(flat, base):
            key = b_ if base.count(b_) == 1 else n
            self.dotted[key] = n
            fs.append({"name": key, "ty": t})
        self.names = [f["name"] for f in fs]
        impl = [i for i in F.raw["impls"] if i["id"] == rec["container"]["impl"]]
        item = [i.get("ty") for i in (impl[0]["items"] if impl else []) if i.get("name") == "Item"]
        self.item_adt = item[0]["def"] if item and item[0] and item[0].get("k") == "adt" else None
        self.item_names = [f["name"] for f in F.adts[self.item_adt]["variants"][0]["fields"]] if self.item_adt in F.adts else []
        self.vec = [f["name"] for f in fs if f["ty"].get("k") == "adt" and f["ty"].get("def") == HV]
        self.flag = [f["name"] for f in fs if f["ty"].get("k") == "bool"]
        self.u16 = [f["name"] for f in fs if f["ty"].get("k") == "int"]
        self.inner = [f["name"] for f in fs if f["ty"].get("k") == "param"]

    def fields(self, ex, v):
        if isinstance(v, SymV):
            v = ex.expand_sym(v)
        flat = C.flat_fields(ex, self.F, self.adt, v)
        return {k: flat[d] for k, d in self.dotted.items()}

    def item(self, ex, v):
        if isinstance(v, SymV):
            v = ex.expand_sym(v)
        return {n: v.fields[i] for i, n in enumerate(self.item_names)}


def find_accumulators(R, F, cfg):
    its = [b for b in F.trait_impl_method(TR.ITER, "next") if b["container"]["self_ty"].get("def", "").startswith("mipidsi::batch::")]
    accs = [Acc(F, b) for b in its]
    rows = [a for a in accs if set(("x_left", "x_right", "y")) <= set(a.names) and len(a.vec) == 1 and len(a.flag) == 1]
    blocks = [a for a in accs if set(("x_left", "x_right", "y_top", "y_bottom")) <= set(a.names) and len(a.vec) == 1 and len(a.flag) == 1]
    if len(rows) != 1 or len(blocks) != 1:
        R.undecided("C03", "%s|anchors" % cfg, "row / block accumulators (Iterator impls in batch.rs with fields x_left, x_right, y / y_top, "
                    "y_bottom, one heapless Vec and one flag) not found exactly once each (%d, %d)" % (len(rows), len(blocks)))
        return None, None
    return rows[0], blocks[0]


def run_step(R, F, acc, result_facts):
    ex = R.executor(F)
    ex.no_merge = True
    ex.result_facts = result_facts
    ex.templates = [lambda v: BOUND - v]
    ex.struct_templates = D.accumulator_templates(F)
    assume = [BOUND - sym_int("*self.%s" % acc.dotted[n], 16, False) for n in acc.u16]
    # the accumulator invariants every reachable state satisfies (established in context by C08's loop analysis):
    # not first => start <= end in every dimension and len = product of the extents
    fp = sym_bool("*self.%s" % acc.dotted[acc.flag[0]])
    ln = sym_int("len(*self.%s)" % acc.dotted[acc.vec[0]], F.pointer_bits, False)
    f_ = {n: sym_int("*self.%s" % acc.dotted[n], 16, False) for n in acc.u16}
    if "y_top" in f_:
        area = (f_["x_right"] - f_["x_left"] + 1) * (f_["y_bottom"] - f_["y_top"] + 1)
        geo = [f_["x_right"] - f_["x_left"], f_["y_bottom"] - f_["y_top"]]
    else:
        area = f_["x_right"] - f_["x_left"] + 1
        geo = [f_["x_right"] - f_["x_left"]]
    cond = [(ONE - fp, q) for q in geo + [ln - area, area - ln]]
    res = R.run_entry(ex, acc.rec, assume=assume, assume_cond=cond)
    return ex, res


def paths_of(ex, res):
    """every path of one loop iteration / of the exit of next(): (kind, facts, before-state value, after-state value,
    returned value or None, pull events on the path)"""
    out = []
    def marks(trace, acc_):
        for it in trace:
            if isinstance(it, E.LoopMark):
                acc_.add(it.loop_id)
            elif isinstance(it, E.Alt):
                for _c, sub in it.alts:
                    marks(sub, acc_)
        return acc_
    inner = set()
    for l_ in res.loops.values():
        for c_ in l_["cont"]:
            marks(c_["trace"], inner)
    # the loop of next() itself: the one that is not nested in another (a path may contain further loops, e.g. an
    # iterator chain over the colours of a row; they are part of the path)
    loops = [(k_, v_) for k_, v_ in res.loops.items() if k_ not in inner and v_["fn"] == res.entry]
    if len(loops) != 1:
        return None
    lid, l = loops[0]
    before = C.deref_self(ex, l["entry_state"])
    for c in l["cont"]:
        evs = [a_["ev"] for a_ in TR.annotate(c["trace"], None)]
        out.append(("continue", c["state"].facts, before, C.deref_self(ex, c["state"]), None, evs))
    for o in res.outcomes:
        if o.kind == "panic":
            out.append(("panic", o.state.facts, before, None, o.info, []))
            continue
        idx = [i for i, it in enumerate(o.state.trace) if isinstance(it, E.LoopMark) and it.loop_id == lid]
        seg = o.state.trace[idx[-1] + 1:] if idx else o.state.trace
        evs = [a_["ev"] for a_ in TR.annotate(seg, None)]
        out.append(("return", o.state.facts, before, C.deref_self(ex, o.state), o.value, evs))
    return out


def pulled(ex, f, evs, item_def):
    """the item the inner iterator yielded on this path: (n pulls, payload of the one that returned Some or None, undecided).
    Only `next` calls whose item type is `item_def` count (other iterators may be used on the path)."""
    some = []
    und = 0
    n = 0
    for ev in evs:
        if TR.classify(ev).cls != "NEXT" or not isinstance(ev.ret, SymV):
            continue
        t = ev.ret.ty.get("args") or [{}]
        if t[0].get("def") != item_def:
            continue
        n += 1
        v = f.simplify(ex.variant_cond(ev.ret, 1)).const_value()
        if v == 1:
            some.append(ex.expand_sym(ev.ret, 1).fields[0])
        elif v is None:
            und += 1
    return n, some, und


# ----------------------------------------------------------------------------------------------- row accumulator
def check_row_steps(R, F, cfg, acc):
    tag = "%s|%s::next" % (cfg, acc.adt.split("::")[-1])

    def in_bounds(trait, name, rn):
        if trait == TR.ITER and name == "next":
            x, y = sym_int(rn + "@Some.0.0.x", 32, True), sym_int(rn + "@Some.0.0.y", 32, True)
            return [x, y, BOUND - x, BOUND - y]
    try:
        ex, res = run_step(R, F, acc, in_bounds)
    except E.Undecided as e:
        R.undecided("C03", "%s|undecided" % tag, str(e))
        return
    paths = paths_of(ex, res)
    if paths is None:
        R.undecided("C03", "%s|loop-shape" % tag, "expected one loop in the row accumulator's next(), found %d" % len(res.loops))
        return
    vn, fn = acc.vec[0], acc.flag[0]
    seen = set()
    for k, (kind, f, before, after, ret, evs) in enumerate(paths):
        key = "%s|path%d" % (tag, k)
        if kind == "panic":
            R.ob("C03-row-step", key + "|panic", False, "the row accumulator can panic on an in-bounds stream: %s" % ({a: b for a, b in ret.items() if a != "stack"},))
            continue
        b = acc.fields(ex, before)
        a = acc.fields(ex, resolve(f, after))
        npull, some, und = pulled(ex, f, evs, "embedded_graphics_core::drawable::Pixel")
        if und or len(some) > 1 or npull != 1:
            R.undecided("C03", key + "|pull", "a path of next() pulls %d item(s), %d with an undecided result" % (npull, und))
            continue
        first_b = f.simplify(b[fn].p).const_value()
        Lb, Kb = vec_parts(ex, b[vn])
        La, Ka = vec_parts(ex, a[vn])
        Ka = resolve(f, Ka) if Ka is not None else None
        row = None
        if ret is not None:
            rv = resolve(f, ret)
            if isinstance(rv, Agg) and rv.variant == 1:
                row = acc.item(ex, rv.fields[0])
            elif not (isinstance(rv, Agg) and rv.variant == 0):
                R.undecided("C03", key + "|return", "next() returns %r" % (rv,))
                continue
        if first_b is None:
            R.undecided("C03", key + "|flag", "the `first` flag is not decided on a path of next()")
            continue
        ok = False
        why = ""
        if some:
            px = acc_pixel(ex, some[0])
            if px is None:
                R.undecided("C03", key + "|pixel-shape", "pulled item has unexpected shape %r" % (some[0],))
                continue
            x, y, col = px
            started = is_term(Ka, "seq_push", 2) and is_term(Ka.args[0], "seq_empty", 0) and same_content(Ka.args[1], col) \
                and eq(f, La, ONE) and eq(f, a["x_left"].poly(), x) and eq(f, a["x_right"].poly(), x) and eq(f, a["y"].poly(), y) \
                and f.simplify(a[fn].p).const_value() == 0
            if kind == "continue" and first_b == 1:
                case = "first-pixel"
                ok = started
                why = "the first pixel must start a row holding exactly that pixel"
            elif kind == "continue":
                case = "append"
                # the pixel lands on (x_left + len, y): needs x == x_right + 1 together with len == x_right - x_left + 1
                ok = is_term(Ka, "seq_push", 2) and same_content(Ka.args[0], Kb) and same_content(Ka.args[1], col) \
                    and eq(f, La, Lb + 1) and eq(f, a["x_left"].poly(), b["x_left"].poly()) and eq(f, a["x_right"].poly(), x) \
                    and eq(f, a["y"].poly(), b["y"].poly()) and eq(f, y, b["y"].poly()) and eq(f, x, b["x_left"].poly() + Lb) \
                    and f.simplify(a[fn].p).const_value() == 0
                why = "an appended pixel must be the next one of the row: colours = old colours + its colour, position (x_left + len, y)"
            elif row is not None and first_b == 0:
                case = "flush"
                Lr, Kr = vec_parts(ex, row[vn])
                ok = started and same_content(resolve(f, Kr), Kb) and eq(f, Lr, Lb) and all(eq(f, row[n].poly(), b[n].poly()) for n in ("x_left", "x_right", "y"))
                why = "a flush must hand on the pending row unchanged and start a new row with the pixel just pulled"
            else:
                case = "other"
                why = "a pixel is taken from the stream on a path that neither appends it, nor starts a row with it"
        else:
            if kind == "return" and row is not None and first_b == 0:
                case = "end-pending"
                Lr, Kr = vec_parts(ex, row[vn])
                ok = same_content(resolve(f, Kr), Kb) and eq(f, Lr, Lb) and all(eq(f, row[n].poly(), b[n].poly()) for n in ("x_left", "x_right", "y")) \
                    and f.simplify(a[fn].p).const_value() == 1
                why = "at the end of the stream the pending row must be handed on unchanged and nothing stay pending"
            elif kind == "return" and row is None and first_b == 1:
                case = "end-empty"
                ok = f.simplify(a[fn].p).const_value() == 1
                why = "at the end of the stream with nothing pending next() returns None"
            else:
                case = "other"
                why = "the stream has ended but the pending row is neither handed on nor was there none"
        seen.add(case)
        R.ob("C03-row-step", "%s|%s" % (key, case), ok, "%s (path of %s: before %r, after %r, returned %r)" % (why, case, before, after, ret),
             sample={"accumulator": acc.adt.split("::")[-1], "case": case})
    R.ob("C03-row-cases", tag + "|cases", {"first-pixel", "append", "flush", "end-pending", "end-empty"} <= seen,
         "paths of the row accumulator found: %s" % sorted(seen))


def acc_pixel(ex, item):
    """(x poly, y poly, colour value) of a pulled Pixel(Point, C)"""
    if isinstance(item, SymV):
        item = ex.expand_sym(item)
    if not (isinstance(item, Agg) and len(item.fields) == 2):
        return None
    pt, col = item.fields
    if isinstance(pt, SymV):
        pt = ex.expand_sym(pt)
    if not (isinstance(pt, Agg) and len(pt.fields) == 2 and all(isinstance(q, IntV) for q in pt.fields)):
        return None
    return pt.fields[0].poly(), pt.fields[1].poly(), col


# --------------------------------------------------------------------------------------------- block accumulator
def check_block_steps(R, F, cfg, acc, row_acc):
    tag = "%s|%s::next" % (cfg, acc.adt.split("::")[-1])
    vn_r = row_acc.vec[0]

    def row_facts(trait, name, rn):
        # what the row accumulator guarantees about every row it hands on (C03-row-step, C08 invariants)
        if trait == TR.ITER and name == "next":
            xl, xr, y = [sym_int("%s@Some.0.%s" % (rn, n), 16, False) for n in ("x_left", "x_right", "y")]
            ln = sym_int("len(%s@Some.0.%s)" % (rn, vn_r), 64, False)
            return [xr - xl, BOUND - xr, BOUND - y, ln - (xr - xl + 1), (xr - xl + 1) - ln]
    try:
        ex, res = run_step(R, F, acc, row_facts)
    except E.Undecided as e:
        R.undecided("C03", "%s|undecided" % tag, str(e))
        return
    paths = paths_of(ex, res)
    if paths is None:
        R.undecided("C03", "%s|loop-shape" % tag, "expected one loop in the block accumulator's next(), found %d" % len(res.loops))
        return
    vn, fn = acc.vec[0], acc.flag[0]
    seen = set()
    for k, (kind, f, before, after, ret, evs) in enumerate(paths):
        key = "%s|path%d" % (tag, k)
        if kind == "panic":
            R.ob("C03-block-step", key + "|panic", False, "the block accumulator can panic: %s" % ({a: b for a, b in ret.items() if a != "stack"},))
            continue
        b = acc.fields(ex, before)
        a = acc.fields(ex, resolve(f, after))
        npull, some, und = pulled(ex, f, evs, row_acc.item_adt)
        if und or len(some) > 1 or npull != 1:
            R.undecided("C03", key + "|pull", "a path of next() pulls %d row(s), %d with an undecided result" % (npull, und))
            continue
        first_b = f.simplify(b[fn].p).const_value()
        Lb, Kb = vec_parts(ex, b[vn])
        La, Ka = vec_parts(ex, a[vn])
        Ka = resolve(f, Ka) if Ka is not None else None
        blk = None
        if ret is not None:
            rv = resolve(f, ret)
            if isinstance(rv, Agg) and rv.variant == 1:
                blk = acc.item(ex, rv.fields[0])
            elif not (isinstance(rv, Agg) and rv.variant == 0):
                R.undecided("C03", key + "|return", "next() returns %r" % (rv,))
                continue
        if first_b is None:
            R.undecided("C03", key + "|flag", "the `first` flag is not decided on a path of next()")
            continue
        geo = ("x_left", "x_right", "y_top", "y_bottom")
        ok, why = False, ""
        if some:
            r = row_acc.item(ex, some[0])
            Lr, Kr = vec_parts(ex, r[vn_r])
            # a block holding exactly the row just pulled
            started = (same_content(Ka, Kr) or (is_term(Ka, "seq_concat", 2) and is_term(Ka.args[0], "seq_empty", 0) and same_content(Ka.args[1], Kr))) \
                and eq(f, La, Lr) and eq(f, a["x_left"].poly(), r["x_left"].poly()) and eq(f, a["x_right"].poly(), r["x_right"].poly()) \
                and eq(f, a["y_top"].poly(), r["y"].poly()) and eq(f, a["y_bottom"].poly(), r["y"].poly()) and f.simplify(a[fn].p).const_value() == 0
            if kind == "continue" and first_b == 1:
                case, ok, why = "first-row", started, "the first row must start a block holding exactly that row"
            elif kind == "continue":
                case = "append"
                ok = is_term(Ka, "seq_concat", 2) and same_content(Ka.args[0], Kb) and same_content(Ka.args[1], Kr) and eq(f, La, Lb + Lr) \
                    and all(eq(f, a[n].poly(), b[n].poly()) for n in ("x_left", "x_right", "y_top")) and eq(f, a["y_bottom"].poly(), r["y"].poly()) \
                    and eq(f, r["y"].poly(), b["y_bottom"].poly() + 1) and eq(f, r["x_left"].poly(), b["x_left"].poly()) \
                    and eq(f, r["x_right"].poly(), b["x_right"].poly()) and f.simplify(a[fn].p).const_value() == 0
                why = "an appended row must be the line below the block with the same columns: colours = old colours ++ its colours"
            elif blk is not None and first_b == 0:
                case = "flush"
                Lk, Kk = vec_parts(ex, blk[vn])
                ok = started and same_content(resolve(f, Kk), Kb) and eq(f, Lk, Lb) and all(eq(f, blk[n].poly(), b[n].poly()) for n in geo)
                why = "a flush must hand on the pending block unchanged and start a new block with the row just pulled"
            else:
                case, why = "other", "a row is taken on a path that neither appends it nor starts a block with it"
        else:
            if kind == "return" and blk is not None and first_b == 0:
                case = "end-pending"
                Lk, Kk = vec_parts(ex, blk[vn])
                ok = same_content(resolve(f, Kk), Kb) and eq(f, Lk, Lb) and all(eq(f, blk[n].poly(), b[n].poly()) for n in geo) \
                    and f.simplify(a[fn].p).const_value() == 1
                why = "at the end of the stream the pending block must be handed on unchanged and nothing stay pending"
            elif kind == "return" and blk is None and first_b == 1:
                case, ok, why = "end-empty", f.simplify(a[fn].p).const_value() == 1, "with nothing pending next() returns None at the end"
            else:
                case, why = "other", "the rows have ended but the pending block is neither handed on nor was there none"
        seen.add(case)
        R.ob("C03-block-step", "%s|%s" % (key, case), ok, "%s (path of %s: before %r, after %r, returned %r)" % (why, case, before, after, ret),
             sample={"accumulator": acc.adt.split("::")[-1], "case": case})
    R.ob("C03-block-cases", tag + "|cases", {"first-row", "append", "flush", "end-pending", "end-empty"} <= seen,
         "paths of the block accumulator found: %s" % sorted(seen))


# ------------------------------------------------------------------------------------------------------- draw_batch
def check_draw_batch(R, F, cfg, block_acc):
    """every block the pipeline hands on is sent once, in order, as the window (x_left..x_right, y_top..y_bottom) with
    its own colours (orientation 0 is enough here: the window arithmetic under the other orientations is C01's). The
    block accumulator's next() is kept abstract in this run, so each block is a named symbolic value."""
    di = C.drawtarget_method(F, "draw_iter")
    orders = {"CASET": C.ctor_order(R, F, D.CASET, 2, "C03", cfg), "RASET": C.ctor_order(R, F, D.RASET, 2, "C03", cfg)}
    try:
        ex, g, res = D.run_draw(R, F, di, 0, False, extra_abstract=[block_acc.rec["id"]])
    except E.Undecided as e:
        R.undecided("C03", "%s|draw_iter|undecided" % cfg, str(e))
        return
    vn = block_acc.vec[0]
    ox, oy = sym_int("*self.options.display_offset.0", 16, False), sym_int("*self.options.display_offset.1", 16, False)
    n = 0
    for lid, l in sorted(res.loops.items()):
        for ci, c in enumerate(l["cont"]):
            f = c["state"].facts
            evs = [a_["ev"] for a_ in TR.annotate(c["trace"], None)]
            nexts = [e for e in evs if TR.classify(e).cls == "NEXT" and isinstance(e.ret, SymV)]
            pix = [e for e in evs if TR.classify(e).cls == "PIX"]
            if not pix:
                continue
            n += 1
            key = "%s|draw_iter|loop@%s|path%d" % (cfg, lid.split("@")[1].split("/")[0], ci)
            win = {}
            for e in evs:
                s_ = TR.classify(e)
                if s_.cls == "WCMD" and D.wsym(s_) in ("CASET", "RASET") and isinstance(s_.extra, Agg):
                    win.setdefault(D.wsym(s_), []).append(C.ctor_args(s_.extra, orders[D.wsym(s_)]))
            ok = len(nexts) == 1 and len(pix) == 1 and all(len(win.get(k_, [])) == 1 for k_ in ("CASET", "RASET")) \
                and f.simplify(ex.variant_cond(nexts[0].ret, 1)).const_value() == 1
            why = "one iteration of draw_batch must take one block and send it as one window and one burst (blocks taken: %d, bursts: %d, " \
                  "windows: %s)" % (len(nexts), len(pix), {k_: len(v_) for k_, v_ in win.items()})
            if ok:
                b = block_acc.item(ex, ex.expand_sym(nexts[0].ret, 1).fields[0])
                Lb, Kb = vec_parts(ex, b[vn])
                Lp, Kp = vec_parts(ex, pix[0].args[1])
                (c0, c1), (p0, p1) = win["CASET"][0], win["RASET"][0]
                ok = same_content(resolve(f, Kp), resolve(f, Kb)) and Lp is not None and eq(f, Lp, Lb) \
                    and eq(f, c0, b["x_left"].poly() + ox) and eq(f, c1, b["x_right"].poly() + ox) \
                    and eq(f, p0, b["y_top"].poly() + oy) and eq(f, p1, b["y_bottom"].poly() + oy)
                why = "a block must be sent as the window (x_left..x_right, y_top..y_bottom) (+ offset) with its own colours; got columns " \
                      "%r..%r, pages %r..%r, colours %r for block %r" % (f.simplify(c0), f.simplify(c1), f.simplify(p0), f.simplify(p1), Kp, b)
            R.ob("C03-block-sent-as-window", key, ok, why, sample={"path": key})
    R.floor("%s|draw_iter blocks sent" % cfg, n, 1)
    # nothing is sent outside that loop (a block sent twice or a stray burst would show here)
    stray = []
    for o in res.returns():
        if C.result_variant(o.value) != 0:
            continue        # an error return leaves from inside the loop, after the burst that failed (C12)
        for it in o.state.trace:
            if isinstance(it, E.Ev) and it.kind == "call" and TR.classify(it).cls in ("PIX", "REP"):
                stray.append(TR.where(it))
    R.ob("C03-no-burst-outside-the-block-loop", "%s|draw_iter|stray" % cfg, not stray, "draw_iter sends pixel data outside the per-block loop: %s" % stray[:3])


def find_block_state(ex, st, acc):
    """the value of the block accumulator among the locals of the draw_batch frame in state st"""
    cands = [v for root, v in st.mem.items() if isinstance(v, Agg) and v.kind == "adt" and v.name == acc.adt]
    # the live one is the value the loop analysis made symbolic (moved-from temporaries keep their constants)
    live = [v for v in cands if "loop:" in repr(acc.fields(ex, v)["x_left"])]
    if len(live) == 1:
        return live[0]
    return cands[0] if len(cands) == 1 else None


def run(R):
    R.trusted = ["rustc nightly MIR construction", "AIM interpreter", "heapless::Vec: push appends at the end, extend_from_slice appends the "
                 "slice in order, clone / clear / Deref as documented (contents as uninterpreted sequence terms)",
                 "C08 (accumulator invariants len = x_right - x_left + 1, len = width x height; window framing), C02 (only in-bounds pixels "
                 "reach the pipeline), C01 (window -> framebuffer cells), the controller fills a window row-major from its top-left corner"]
    R.explanation = ("Refinement step relations, decided one call at a time on symbolic accumulator states (batch feature only): for the row "
                     "accumulator every path of next() is one of first-pixel / append / flush / end-pending / end-empty and satisfies "
                     "pending(before) ++ [pixel] == emitted ++ pending(after) - an appended pixel is the one at (x_left + len, y) with its "
                     "own colour pushed at the end, a flushed row is the pending one unchanged, the pixel that caused the flush starts the "
                     "next row, the trailing row is emitted at the end of the stream; the same for the block accumulator with rows "
                     "(appended only directly below with identical columns, colours concatenated); every block is sent once, in order, as "
                     "its own window with its own colours. By induction over the stream the bursts, read row-major, are the in-bounds "
                     "pixels in stream order, each exactly once; a later pixel of the same position is in a later burst position, so "
                     "last-write-wins is preserved. Not mechanised: that induction and the controller's fill order.")
    for cfg in R.configs:
        F = R.facts(cfg)
        if not F.batch:
            continue
        row, blk = find_accumulators(R, F, cfg)
        if row is None:
            continue
        check_row_steps(R, F, cfg, row)
        check_block_steps(R, F, cfg, blk, row)
        check_draw_batch(R, F, cfg, blk)
