"""C01 - drawn pixels land at the oriented, offset panel position (every entry point)."""
import exec as E
import trace as TR
from poly import Poly, ONE, ZERO, sym_int
from values import Agg, SymV, IntV, BoolV, Ptr
from rules.C08 import same_on_path   # equality modulo the path's own equalities
from rules import common as C
from rules import draw as D

LEVEL = "other"


def run(R):
    R.trusted = ["rustc nightly MIR construction", "AIM interpreter (affine forms, bounded Farkas entailment)",
                 "MIPI DCS controller model: MV exchanges column/page, MX / MY reverse the column / page direction (C14 proves the "
                 "driver sends exactly these bits for each orientation)", "C18 (address commands carry their arguments big-endian)",
                 "C09: every existing Display satisfies w,h >= 1, ox+w <= W, oy+h <= H (I_init)",
                 "embedded-graphics-core: Rectangle::intersection lies inside both operands; bounding_box = (0,0,size())"]
    R.explanation = ("(a) For each of the 8 orientations the polymorphic Display::set_pixels is interpreted on symbolic coordinates, size, "
                     "offset and framebuffer size: the column/page arguments are affine forms; decoding them as a MIPI controller does under "
                     "the orientation's MY/MX/MV must give, identically in (lx, ly), the cell offset + mirror(rotate_cw(lx, ly)); both corners "
                     "get the same offsets. Generic in model and transport: every model from 1x1 to 65535x65535. (b) set_pixel, fill_solid, "
                     "fill_contiguous and the unbatched draw_iter hand exactly their logical coordinates (the clipped rectangle's corners, "
                     "the point itself) to that arithmetic; clear is the trait default (not overridden). (c) size() swaps for 90/270 (C10). "
                     "(d) the u16 window arithmetic cannot wrap and the window end stays inside the framebuffer as seen under the address "
                     "mode, under I_init and in-bounds coordinates. Not decided: grouping of batched draw_iter pixels into windows (C03); "
                     "'last colour wins' follows from (a) plus the framing of C08 given the controller model.")
    R.parallel("C01", "task", [(cfg, q, m) for cfg in R.configs for (q, m) in D.ORIENTATIONS])


def task(R, item):
    cfg, q, m = item
    for _case in (0,):
        F = R.facts(cfg)
        orders = {"CASET": C.ctor_order(R, F, D.CASET, 2, "C01", cfg), "RASET": C.ctor_order(R, F, D.RASET, 2, "C01", cfg)}
        if None in orders.values():
            R.undecided("C01", "%s|ctors" % cfg, "address command constructors not analysable")
            continue
        sp = C.display_method(F, "set_pixels")
        spx = C.display_method(F, "set_pixel")
        fs = C.drawtarget_method(F, "fill_solid")
        fc = C.drawtarget_method(F, "fill_contiguous")
        di = C.drawtarget_method(F, "draw_iter")
        clear_overridden = bool(F.trait_impl_method(C.DRAWTARGET, "clear", self_adt=C.DISPLAY))
        R.ob("C01b-clear-is-default", "%s|clear" % cfg, not clear_overridden,
             "Display overrides DrawTarget::clear: it is no longer fill_solid(bounding_box) and is not covered")
        sx, sy, ex_, ey = [sym_int(n, 16, False) for n in ("sx", "sy", "ex", "ey")]
        for _ori in (0,):
            otag = "%s|%ddeg%s" % (cfg, q * 90, "+mirror" if m else "")
            g = C.Geo(q, m)
            # in-bounds drawing (property quantifier) for the unchecked low-level entry
            inb = [ex_ - sx, ey - sy, g.lw - 1 - ex_, g.lh - 1 - ey]
            ex, g, res = D.run_draw(R, F, sp, q, m, assume=inb)
            window_cone = set(res.cone)
            offC = offR = None
            for o in res.outcomes:
                if o.kind == "panic":
                    sp_ = o.info.get("span") or {}
                    R.ob("C01d-window-arith-no-wrap", "%s|set_pixels|%s|%s|%s" % (otag, o.info.get("what") or o.info.get("kind"), o.info.get("op"), sp_.get("line")), False,
                         "window arithmetic can overflow for an in-bounds window under I_init: %s %s (%s, %s)" % (o.info.get("what"), o.info.get("op"), o.info.get("a"), o.info.get("b")),
                         "%s:%s" % (sp_.get("file"), sp_.get("line")))
                    continue
                ws = D.windows(o, res.loops, orders)
                if len(ws) < 2:
                    continue
                (a0, k0, (c0, c1)), (a1, k1, (p0, p1)) = ws[0], ws[1]
                if (k0, k1) != ("CASET", "RASET"):
                    R.ob("C01a-window-commands", "%s|set_pixels|order" % otag, False, "address commands are %s, %s" % (k0, k1))
                    continue
                c0, c1, p0, p1 = [o.state.facts.simplify(x) for x in (c0, c1, p0, p1)]
                offC, offR = c0 - sx, p0 - sy
                R.ob("C01a-corners-same-offset", "%s|set_pixels|corners" % otag, c1 - ex_ == offC and p1 - ey == offR
                     and not (offC.atoms() & {a for a in (sx + sy + ex_ + ey).atoms()}) and not (offR.atoms() & {a for a in (sx + sy + ex_ + ey).atoms()}),
                     "CASET = (%r, %r), RASET = (%r, %r): start and end must be the logical coordinates plus one common offset" % (c0, c1, p0, p1))
                lx, ly = sym_int("lx", 16, False), sym_int("ly", 16, False)
                X, Y = g.decode(lx + offC, ly + offR)
                px, py = g.panel(lx, ly)
                R.ob("C01a-lands-on-oriented-cell", "%s|set_pixels|x" % otag, X == g.ox + px,
                     "decoded framebuffer column of logical (lx,ly) is %r, the oriented and offset position is %r" % (X, g.ox + px),
                     sample={"orientation": [q * 90, m], "column_offset": repr(offC), "page_offset": repr(offR), "decoded_x": repr(X)})
                R.ob("C01a-lands-on-oriented-cell", "%s|set_pixels|y" % otag, Y == g.oy + py,
                     "decoded framebuffer row of logical (lx,ly) is %r, the oriented and offset position is %r" % (Y, g.oy + py))
                # (d) end inside the framebuffer as seen under the address mode
                R.ob("C01d-window-inside-framebuffer", "%s|set_pixels|col-end" % otag, o.state.facts.entails_ge0(g.col_limit() - 1 - c1) is not None,
                     "column end %r is not provably <= %r - 1" % (c1, g.col_limit()))
                R.ob("C01d-window-inside-framebuffer", "%s|set_pixels|row-end" % otag, o.state.facts.entails_ge0(g.row_limit() - 1 - p1) is not None,
                     "page end %r is not provably <= %r - 1" % (p1, g.row_limit()))
                break
            if offC is None:
                R.undecided("C01a", "%s|set_pixels|no-window" % otag, "no path of set_pixels emits the two address commands")
                continue
            # (b) the other entry points feed their logical coordinates into the same arithmetic
            x, y = sym_int("x", 16, False), sym_int("y", 16, False)
            ex2, g2, res2 = D.run_draw(R, F, spx, q, m, assume=[g.lw - 1 - x, g.lh - 1 - y])
            okp = False
            for o in res2.returns():
                ws = D.windows(o, res2.loops, orders)
                if len(ws) >= 2:
                    okp = ws[0][2] == [x + offC, x + offC] and ws[1][2] == [y + offR, y + offR]
                    break
            R.ob("C01b-entry-feeds-window", "%s|set_pixel" % otag, okp, "set_pixel(x, y) does not address exactly the cell (x, y) with the orientation's offsets")
            for rec, nm in ((fs, "fill_solid"), (fc, "fill_contiguous")):
                ex3, g3, res3 = D.run_draw(R, F, rec, q, m)
                seen = False
                for o in res3.returns():
                    ws = D.windows(o, res3.loops, orders)
                    if len(ws) < 2:
                        continue
                    isects = [v for k, v in ex3.alias_defs.items() if isinstance(k, tuple) and k[0] == "isect"]
                    if len(isects) != 1:
                        R.undecided("C01b", "%s|%s|isect" % (otag, nm), "expected one intersection with the bounding box, found %d" % len(isects))
                        break
                    ix, iy, iw, ih = isects[0]["r"]
                    bb = isects[0]["b"]
                    aa = isects[0]["a"]
                    f = o.state.facts
                    want_c = [ix + offC, ix + iw - 1 + offC]
                    want_p = [iy + offR, iy + ih - 1 + offR]
                    got_c, got_p = [f.simplify(v) for v in ws[0][2]], [f.simplify(v) for v in ws[1][2]]
                    seen = True
                    R.ob("C01b-entry-feeds-window", "%s|%s|window" % (otag, nm), all(same_on_path(f, a_, b_) for a_, b_ in zip(got_c + got_p, want_c + want_p)),
                         "%s addresses columns %s / pages %s; the clipped rectangle's corners with the orientation's offsets are %s / %s"
                         % (nm, got_c, got_p, want_c, want_p), sample={"entry": nm, "orientation": [q * 90, m], "caset": [repr(v) for v in got_c]})
                    # (intersection is symmetric: either operand may be the logical bounds, the other the caller's rectangle)
                    if not (bb[0] == ZERO and bb[1] == ZERO and bb[2] == g.lw and bb[3] == g.lh) and \
                            (aa[0] == ZERO and aa[1] == ZERO and aa[2] == g.lw and aa[3] == g.lh):
                        aa, bb = bb, aa
                    bbok = bb[0] == ZERO and bb[1] == ZERO and bb[2] == g.lw and bb[3] == g.lh
                    areaok = all(("area" in repr(v)) for v in aa)
                    R.ob("C01b-clips-against-logical-bounds", "%s|%s|clip" % (otag, nm), bbok and areaok,
                         "%s clips %s against %s; it must clip the requested area against (0,0,%r,%r)" % (nm, aa, bb, g.lw, g.lh))
                    R.ob("C01d-window-inside-framebuffer", "%s|%s|col-end" % (otag, nm), f.entails_ge0(g.col_limit() - 1 - got_c[1]) is not None,
                         "column end %r of %s is not provably inside the framebuffer" % (got_c[1], nm))
                    R.ob("C01d-window-inside-framebuffer", "%s|%s|row-end" % (otag, nm), f.entails_ge0(g.row_limit() - 1 - got_p[1]) is not None,
                         "page end %r of %s is not provably inside the framebuffer" % (got_p[1], nm))
                    break
                for o in res3.panics():
                    if o.info.get("fn") not in window_cone:
                        continue    # arithmetic outside the window computation belongs to C02 / C04
                    sp_ = o.info.get("span") or {}
                    R.ob("C01d-window-arith-no-wrap", "%s|%s|%s|%s|%s" % (otag, nm, o.info.get("what") or o.info.get("kind"), o.info.get("op"), sp_.get("line")), False,
                         "%s can panic / wrap: %s %s (%s, %s)" % (nm, o.info.get("what") or o.info.get("kind"), o.info.get("op"), o.info.get("a"), o.info.get("b")),
                         "%s:%s" % (sp_.get("file"), sp_.get("line")))
                if not seen:
                    R.undecided("C01b", "%s|%s|no-window" % (otag, nm), "no success path of %s emits an address window" % nm)
                else:
                    R.ob("C01d-window-arith-no-wrap", "%s|%s|discharged" % (otag, nm),
                         not [o for o in res3.panics() if o.info.get("fn") in window_cone], "window arithmetic obligations of %s not all discharged" % nm)
