"""C04 - fill_contiguous keeps colour k on point k under any clipping (stream-index arithmetic)."""
import exec as E
import trace as TR
from poly import Poly, ONE, ZERO, sym_int
from values import Agg, SymV, IntV, BoolV, Ptr, Term
from rules import common as C
from rules import draw as D

LEVEL = "other"
TAKESKIP_HINT = "TakeSkip"


def eq_subst(f, p, pairs):
    """substitute a := b in p for every pair the facts force equal"""
    sub = {}
    for a, b in pairs:
        if f.entails_ge0(a - b) is not None and f.entails_ge0(b - a) is not None:
            at = a.is_atom()
            if at is not None:
                sub[at] = b
    return p.subst(sub) if sub else p


def consumed(res, trace, f):
    """(number of colours pulled from the stream by the events of a linear trace, result symbol name of
    the last pull).  Handles Iterator::nth(n) [n+1], single next() [1] and the 16-bit-pointer helper
    `for _ in 0..n { it.next(); } it.next()` through the trip count of its Range loop."""
    total = ZERO
    last = None
    for it in trace:
        if isinstance(it, E.LoopMark):
            l = res.loops.get(it.loop_id)
            if l is None:
                return None, None
            rng = C.loop_range(l, res.loops)
            if rng is None:
                return None, None
            start, end = f.simplify(rng[0]), f.simplify(rng[1])
            if start != ZERO:
                return None, None
            for c in l["cont"]:
                cls = [TR.classify(e).cls for e in c["trace"] if isinstance(e, E.Ev) and e.kind == "call"]
                if cls != ["NEXT", "NEXT"]:
                    return None, None
            total = total + end
        elif isinstance(it, E.Ev) and it.kind == "call":
            s = TR.classify(it)
            if s.cls == "ITER_NTH":
                total = total + f.simplify(it.args[1].poly()) + 1
                last = it.ret.name
            elif s.cls == "NEXT":
                # the Range's own next() (loop exit test) is not a pull from the colour stream
                tgt = it.pointees[0] if it.pointees else None
                if isinstance(tgt, Agg) and (tgt.name or "").endswith("Range"):
                    continue
                total = total + 1
                last = it.ret.name
    return total, last


_roles_cache = {}


def takeskip_roles(R, F, cfg):
    """the alternating take/skip iterator of graphics.rs and the roles of its fields, found from what next() does
    with them (not from their names): R = the counter next() changes, T = the field whose value minus one restarts
    the counter, S = the other integer, I = the wrapped iterator.  -> dict or None (reported)"""
    if cfg in _roles_cache:
        return _roles_cache[cfg]
    _roles_cache[cfg] = None
    cands = [b for b in F.trait_impl_method(TR.ITER, "next") if b["container"]["self_ty"].get("def", "").startswith("mipidsi::graphics::")]
    if len(cands) != 1:
        R.undecided("C04-takeskip", "%s|anchor" % cfg, "the take/skip iterator of graphics.rs was not found exactly once (%d)" % len(cands))
        return None
    rec = cands[0]
    adt = rec["container"]["self_ty"]["def"]
    fdefs = F.adts[adt]["variants"][0]["fields"]
    fields = [f["name"] for f in fdefs]
    ints = [f["name"] for f in fdefs if f["ty"].get("k") == "int"]
    others = [f["name"] for f in fdefs if f["ty"].get("k") != "int"]
    ex = R.executor(F)
    ex.no_merge = True
    res = R.run_entry(ex, rec)
    changed = set()
    finals = []
    for o in res.outcomes:
        if o.kind == "panic":
            continue
        d = C.deref_self(ex, o.state)
        if isinstance(d, SymV):
            d = ex.expand_sym(d)
        cur = {n: d.fields[i] for i, n in enumerate(fields)}
        finals.append((o, cur))
        for n in ints:
            if isinstance(cur[n], IntV) and o.state.facts.simplify(cur[n].poly()) != sym_int("*self.%s" % n, 32, False):
                changed.add(n)
    roles = None
    if len(ints) == 3 and len(others) == 1 and len(changed) == 1:
        r_ = next(iter(changed))
        t_ = [n for n in ints if n != r_ and any(o.state.facts.simplify(cur[r_].poly()) == sym_int("*self.%s" % n, 32, False) - 1 for o, cur in finals)]
        if len(t_) == 1:
            s_ = [n for n in ints if n not in (r_, t_[0])][0]
            roles = {"R": r_, "T": t_[0], "S": s_, "I": others[0]}
    if roles is None:
        R.undecided("C04-takeskip", "%s|roles" % cfg, "the iterator in graphics.rs does not have the take/skip shape: integer fields %s, "
                    "fields changed by next(): %s" % (ints, sorted(changed)))
        return None
    _roles_cache[cfg] = {"rec": rec, "adt": adt, "fields": fields, "roles": roles, "ex": ex, "res": res}
    return _roles_cache[cfg]


def check_takeskip_step(R, F, cfg):
    """the alternating take/skip iterator, one call of next() at a time (transition relation)"""
    info = takeskip_roles(R, F, cfg)
    if info is None:
        return
    rec, adt, fields, ro, ex, res = info["rec"], info["adt"], info["fields"], info["roles"], info["ex"], info["res"]
    tag = "%s|TakeSkip::next" % cfg
    take = sym_int("*self.%s" % ro["T"], 32, False)
    rem = sym_int("*self.%s" % ro["R"], 32, False)
    skip = sym_int("*self.%s" % ro["S"], 32, False)
    seen = set()
    for o in res.outcomes:
        if o.kind == "panic":
            R.ob("C04-takeskip-no-panic", "%s|panic|%s" % (tag, o.info.get("cond")), False, "TakeSkip::next can panic: %s" % ({k: v for k, v in o.info.items() if k != "stack"},))
            continue
        f = o.state.facts
        d = C.deref_self(ex, o.state)
        if isinstance(d, SymV):
            d = ex.expand_sym(d)
        cur = {n: d.fields[i] for i, n in enumerate(fields)}
        evs = [TR.classify(a_["ev"]) for a_ in TR.annotate(o.state.trace, res.loops)]
        pulled, last = consumed(res, o.state.trace, f)
        rem_pos = f.entails_ge0(rem - 1) is not None
        rem_zero = f.entails_ge0(-rem) is not None
        take_pos = f.entails_ge0(take - 1) is not None
        take_zero = f.entails_ge0(-take) is not None
        new_rem = f.simplify(cur[ro["R"]].poly())
        yields_last = (isinstance(o.value, SymV) and o.value.name == last) or \
                      (isinstance(o.value, Agg) and o.value.variant == 1 and last is not None and ("%s@Some" % last) in repr(o.value)) or \
                      (isinstance(o.value, Agg) and o.value.variant == 0 and last is not None
                       and f.simplify(Poly.atom(("var", last, 1, 2))).const_value() == 0)
        if rem_pos:
            seen.add("take")
            ok = pulled == ONE and new_rem == rem - 1 and yields_last
            R.ob("C04-takeskip-step", "%s|taking" % tag, ok,
                 "while colours of the current row remain, next() must yield exactly the next colour and decrement the row counter "
                 "(events %s, remaining := %r)" % ([repr(s) for s in evs], new_rem), sample={"state": "row counter > 0", "events": [repr(s) for s in evs]})
        elif rem_zero and take_pos:
            seen.add("skip")
            ok = pulled is not None and pulled == skip + 1 and new_rem == take - 1 and yields_last
            R.ob("C04-takeskip-step", "%s|skipping" % tag, ok,
                 "at the end of a row next() must skip exactly `skip` colours, yield the following one and start a row of take-1 more "
                 "(events %s, remaining := %r)" % ([repr(s) for s in evs], new_rem), sample={"state": "row exhausted", "events": [repr(s) for s in evs]})
        elif rem_zero and take_zero:
            seen.add("empty")
            ok = pulled == ZERO and isinstance(o.value, Agg) and o.value.variant == 0
            R.ob("C04-takeskip-step", "%s|empty" % tag, ok, "with take == 0 next() must return None without consuming colours (events %s)" % [repr(s) for s in evs])
        else:
            R.undecided("C04-takeskip", "%s|path" % tag, "path of TakeSkip::next not classified: %s" % [("%r" % p, v) for p, v in f.decisions()])
    R.ob("C04-takeskip-cases", "%s|cases" % tag, seen == {"take", "skip", "empty"}, "TakeSkip::next cases found: %s" % sorted(seen))
    # constructor: the counter starts at the per-row take; the arguments are (iterator, take, skip) in this order
    news = [b for b in F.inherent_method(adt, "new")]
    if len(news) == 1:
        ex2 = R.executor(F)
        a1, a2 = sym_int("arg-take", 32, False), sym_int("arg-skip", 32, False)
        try:
            res2 = R.run_entry(ex2, news[0], args=[None, IntV(32, False, p=a1), IntV(32, False, p=a2)])
            rets = [o.value for o in res2.returns()]
        except E.Undecided:
            rets = []
        ok = len(rets) == 1 and isinstance(rets[0], Agg)
        if ok:
            v = {n: rets[0].fields[i] for i, n in enumerate(fields)}
            ok = all(isinstance(v[ro[k]], IntV) for k in "TRS") and v[ro["T"]].poly() == a1 and v[ro["R"]].poly() == a1 and v[ro["S"]].poly() == a2
        R.ob("C04-takeskip-new", "%s|TakeSkip::new" % cfg, ok, "TakeSkip::new(iterator, take, skip) builds %r" % (rets[:1],))


def run(R):
    R.trusted = ["rustc nightly MIR construction", "AIM interpreter (path-wise, polynomial forms)", "embedded-graphics-core: intersection inside both "
                 "operands; Rectangle equality is field-wise", "core: Iterator::nth(n) consumes n+1 items, Iterator::take(n) yields at most n, "
                 "u32 -> usize conversion is lossless on >= 32-bit targets", "C08d (take limit equals the window area), C01b (window = clipped rectangle)"]
    R.explanation = ("Decided, path-wise on the polymorphic fill_contiguous: when the rectangle is not clipped the colour stream goes "
                     "straight into take(n); otherwise exactly skip0 = (iy-ay)*aw + (ix-ax) colours are consumed first (nth(skip0-1), or "
                     "nothing when skip0 = 0, on all four guard paths), then the stream is wrapped in the take/skip iterator with "
                     "take = iw and skip = aw - iw and limited to iw*ih. The take/skip iterator's transition relation is decided per call: "
                     "row not exhausted -> one colour, counter-1; row exhausted -> skip `skip`, yield the next, counter := take-1; take = 0 -> "
                     "None. By induction this is 'colour k on point k'. The 16-bit-pointer variants of the helpers are checked in the "
                     "thorough tier (msp430 facts). Not decided: early-ending streams beyond 'next() returning None ends the burst'.")
    for cfg in R.configs:
        F = R.facts(cfg)
        check_takeskip_step(R, F, cfg)
        oris = D.ORIENTATIONS if R.tier == "thorough" else QUICK
        for (q, m) in oris:
            check_clipped_stream(R, F, cfg, q, m)


QUICK = [(0, False), (1, True)]


def check_clipped_stream(R, F, cfg, q, m):
    """fill_contiguous on one orientation: which colours of the caller's stream reach the visible part"""
    fc = C.drawtarget_method(F, "fill_contiguous")
    if True:
        if True:
            otag = "%s|%ddeg%s" % (cfg, q * 90, "+mirror" if m else "")
            aw, ah = sym_int("*area.size.width", 32, False), sym_int("*area.size.height", 32, False)
            ax, ay = sym_int("*area.top_left.x", 32, True), sym_int("*area.top_left.y", 32, True)
            assume = [Poly.const((1 << 31) - 1) - ax - aw, Poly.const((1 << 31) - 1) - ay - ah]
            ex, g, res = D.run_draw(R, F, fc, q, m, assume=assume, no_merge=True)
            isects = [v for k, v in ex.alias_defs.items() if isinstance(k, tuple) and k[0] == "isect"]
            if len(isects) != 1:
                R.undecided("C04", "%s|isect" % otag, "expected one intersection, found %d" % len(isects))
                return
            ix, iy, iw, ih = isects[0]["r"]
            npaths = {"unclipped": 0, "clipped": 0}
            for o in res.returns():
                evs = [TR.classify(a_["ev"]) for a_ in TR.annotate(o.state.trace, res.loops)]
                pix = [s for s in evs if s.cls == "PIX"]
                if not pix:
                    continue
                f = o.state.facts
                it = pix[0].ev.args[1]
                nths = [s for s in evs if s.cls == "ITER_NTH"]
                inner = it.fields[0] if isinstance(it, Agg) and it.name in ("core::iter::take", "core::iter::take_while") else None
                src_ok = lambda v: isinstance(v, Agg) and v.name == "core::iter::into_iter" and isinstance(v.fields[0], SymV) and v.fields[0].name.split("#")[0].rstrip("'") == "colors"
                if src_ok(inner):
                    npaths["unclipped"] += 1
                    same = all(f.entails_ge0(a - b) is not None and f.entails_ge0(b - a) is not None for a, b in ((ix, ax), (iy, ay), (iw, aw), (ih, ah)))
                    R.ob("C04-unclipped-direct", "%s|unclipped" % otag, same and consumed(res, o.state.trace, f)[0] == ZERO,
                         "the colour stream is used unshifted although the rectangle is clipped (or colours are skipped although it is not)",
                         sample={"path": "unclipped", "events": [repr(s)[:80] for s in evs]})
                    continue
                ts = inner if isinstance(inner, Agg) and inner.kind == "adt" and inner.name.startswith("mipidsi::graphics::") else None
                if ts is None:
                    R.undecided("C04", "%s|iterator-shape" % otag, "pixel stream passed to send_pixels has unexpected shape %r" % (it,))
                    continue
                npaths["clipped"] += 1
                names = [x["name"] for x in F.adts[ts.name]["variants"][0]["fields"]]
                info = takeskip_roles(R, F, cfg)
                if info is None or info["adt"] != ts.name:
                    continue
                ro = info["roles"]
                byname = {n: ts.fields[i] for i, n in enumerate(names)}
                tsf = {"iter": byname[ro["I"]], "take": byname[ro["T"]], "take_remaining": byname[ro["R"]], "skip": byname[ro["S"]]}
                want0 = (iy - ay) * aw + (ix - ax)
                want = eq_subst(f, want0, ((iy, ay), (ix, ax)))
                consumed_, _last = consumed(res, o.state.trace, f)
                if consumed_ is None:
                    R.undecided("C04", "%s|skip-shape" % otag, "the colours consumed before the burst could not be counted")
                    continue
                eq = consumed_ == want
                if not eq and consumed_ == ZERO:
                    # the guard `skip > 0` was false: skip <= 0 from the path facts, and skip >= 0 because both
                    # factors (iy-ay), (ix-ax) are entailed non-negative and aw is unsigned: skip = 0 = consumed
                    eq = f.entails_ge0(-want) is not None and f.entails_ge0(iy - ay) is not None and f.entails_ge0(ix - ax) is not None
                R.ob("C04-initial-skip", "%s|clipped|%r" % (otag, want), eq,
                     "before the first drawn colour %r colours are consumed; the points above and left of the visible part number %r" % (consumed_, want),
                     sample={"path": "clipped", "consumed_before_first": repr(consumed_), "oracle": repr(want0)})
                R.ob("C04-per-row", "%s|clipped|take-skip|%r" % (otag, want),
                     src_ok(tsf["iter"]) and f.simplify(tsf["take"].poly()) == iw and f.simplify(tsf["take_remaining"].poly()) == iw
                     and f.simplify(tsf["skip"].poly()) == aw - iw,
                     "per row the stream must take iw = %r colours and skip aw - iw = %r from the caller's stream; got take=%r remaining=%r skip=%r over %r"
                     % (iw, aw - iw, tsf["take"], tsf["take_remaining"], tsf["skip"], tsf["iter"]))
            R.ob("C04-paths", "%s|paths" % otag, npaths["unclipped"] >= 1 and npaths["clipped"] >= 1,
                 "expected an unclipped path and at least one clipped path, found %s" % npaths)
