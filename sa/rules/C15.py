"""C15 - orientation operations compose like rectangle symmetries; angle parsing is total."""
import exec as E
from poly import Poly, ONE, ZERO, atom_pred_poly
from values import Agg, SymV, IntV, BoolV
from rules import common as C

LEVEL = "proof"
ORI = "mipidsi::options::orientation::Orientation"
ROT = "mipidsi::options::orientation::Rotation"
MM = "mipidsi::options::orientation::MemoryMapping"
DEG = {"Deg0": 0, "Deg90": 1, "Deg180": 2, "Deg270": 3}


def mat_mul(a, b):
    return tuple(tuple(sum(a[i][k] * b[k][j] for k in range(2)) for j in range(2)) for i in range(2))


I2 = ((1, 0), (0, 1))
R90 = ((0, -1), (1, 0))      # quarter turn clockwise in screen coordinates (x right, y down)
MLR = ((-1, 0), (0, 1))      # mirror left-right
MTB = ((1, 0), (0, -1))      # mirror top-bottom


def mat_pow(m, k):
    r = I2
    for _ in range(k % 4):
        r = mat_mul(r, m)
    return r


def picture(q, m):
    """linear part of: rotate the logical image clockwise by q quarter turns, then mirror left-right if m"""
    r = mat_pow(R90, q)
    return mat_mul(MLR, r) if m else r


def mk_rot(F, q):
    name = [n for n, k in DEG.items() if k == q][0]
    return Agg("adt", ROT, C.enum_variant_index(F, ROT, name), [])


def mk_ori(F, q, m):
    return Agg("adt", ORI, 0, [mk_rot(F, q), BoolV(Poly.const(1 if m else 0))])


def read_ori(F, v):
    """(quarter turns, mirrored) of a concrete Orientation value, else None"""
    if not (isinstance(v, Agg) and v.name == ORI):
        return None
    r, m = v.fields
    if not (isinstance(r, Agg) and isinstance(m, BoolV) and m.const() is not None):
        return None
    return DEG[F.adts[ROT]["variants"][r.variant]["name"]], bool(m.const())


def run(R):
    R.trusted = ["rustc nightly MIR construction", "AIM interpreter (constant propagation over the finite enum domains)",
                 "dihedral group D4 as signed 2x2 permutation matrices (oracle)", "i32::rem_euclid(m) for m>0: result in [0,m), congruent mod m"]
    R.explanation = ("(a) For all 8 orientations and 4 rotations the public operations are folded to constants through MIR; the results "
                     "must satisfy picture(o.rotate(r)) = picture(o).R^r, picture(o.flip_horizontal()) = picture(o).M_lr, "
                     "picture(o.flip_vertical()) = picture(o).M_tb in D4 (matrix identities); the unreachable!() arm of rotate must be "
                     "unreachable; MemoryMapping::from_orientation agrees with the matrix. (b) Rotation::try_from_degree is interpreted "
                     "path-wise on a symbolic i32: on each path the matched value v is A or rem_euclid(A, M) with 360 | M, the tested "
                     "constants are exactly the multiples of 90 in range(v), Ok arms return the rotation of that many degrees, the "
                     "default arm returns Err, and no arithmetic can overflow: so it succeeds iff 90 | A with the rotation congruent to "
                     "A mod 360, for all 2^32 angles.")
    for cfg in R.configs:
        F = R.facts(cfg)

        def om(name):
            return C.one(F.inherent_method(ORI, name), "Orientation::" + name)
        n_id = 0
        for q in range(4):
            for m in (False, True):
                o = mk_ori(F, q, m)
                po = picture(q, m)
                for r in range(4):
                    ex = R.executor(F)
                    res = C.run_pure(R, ex, om("rotate"), "C15", "%s|rotate|%d%s|%d" % (cfg, q * 90, "m" if m else "", r * 90), args=[o, mk_rot(F, r)])
                    got = read_ori(F, res[0]) if res else None
                    ok = got is not None and picture(*got) == mat_mul(po, mat_pow(R90, r))
                    n_id += 1
                    R.ob("C15-rotate", "%s|(%d,%s).rotate(%d)" % (cfg, q * 90, m, r * 90), ok,
                         "(%d deg, mirrored=%s).rotate(%d deg) = %s shows a different picture than pre-rotating the image by %d deg clockwise"
                         % (q * 90, m, r * 90, got, r * 90), sample={"op": "rotate", "o": [q * 90, m], "r": r * 90, "result": got})
                for name, mat in (("flip_horizontal", MLR), ("flip_vertical", MTB)):
                    ex = R.executor(F)
                    res = C.run_pure(R, ex, om(name), "C15", "%s|%s|%d%s" % (cfg, name, q * 90, m), args=[o])
                    got = read_ori(F, res[0]) if res else None
                    ok = got is not None and picture(*got) == mat_mul(po, mat)
                    n_id += 1
                    R.ob("C15-" + name, "%s|(%d,%s).%s()" % (cfg, q * 90, m, name), ok,
                         "(%d deg, mirrored=%s).%s() = %s is not the picture of the pre-mirrored image" % (q * 90, m, name, got),
                         sample={"op": name, "o": [q * 90, m], "result": got})
                # memory mapping agrees with the matrix of o (controller: MV swaps, MX/MY reverse)
                ex = R.executor(F)
                fo = C.one(F.inherent_method(MM, "from_orientation"), "MemoryMapping::from_orientation")
                res = C.run_pure(R, ex, fo, "C15", "%s|from_orientation|%d%s" % (cfg, q * 90, m), args=[o])
                ok = False
                got = None
                if res and isinstance(res[0], Agg):
                    a = F.adts[MM]["variants"][0]["fields"]
                    vals = {f["name"]: res[0].fields[i].const() for i, f in enumerate(a) if isinstance(res[0].fields[i], BoolV)}
                    got = vals
                    MY = q in (2, 3)
                    MV = q in (1, 3)
                    MX = (q in (1, 2)) != m
                    ok = vals.get("reverse_rows") == int(MY) and vals.get("reverse_columns") == int(MX) and vals.get("swap_rows_and_columns") == int(MV)
                n_id += 1
                R.ob("C15-memory-mapping", "%s|from_orientation(%d,%s)" % (cfg, q * 90, m), ok,
                     "MemoryMapping::from_orientation(%d deg, mirrored=%s) = %s disagrees with the geometry" % (q * 90, m, got))
        R.floor("%s|group identities" % cfg, n_id, 56)
        # Rotation::rotate / degree tables
        deg = C.one(F.inherent_method(ROT, "degree"), "Rotation::degree")
        degree_of = {}
        for name, qq in DEG.items():
            ex = R.executor(F)
            res = C.run_pure(R, ex, deg, "C15", "%s|degree|%s" % (cfg, name), args=[mk_rot(F, qq)])
            d = res[0].const() if res and isinstance(res[0], IntV) else None
            degree_of[C.enum_variant_index(F, ROT, name)] = d
            R.ob("C15-degree", "%s|%s.degree()" % (cfg, name), d == qq * 90, "%s.degree() = %s" % (name, d))
        # (b) try_from_degree, path-wise
        tfd = C.one(F.inherent_method(ROT, "try_from_degree"), "Rotation::try_from_degree")
        ex = R.executor(F)
        ex.no_merge = True
        res = R.run_entry(ex, tfd)
        for o in res.panics():
            R.ob("C15-angle-no-overflow", "%s|try_from_degree|panic|%s" % (cfg, o.info.get("cond")), False,
                 "try_from_degree can panic/overflow: %s" % ({k: v for k, v in o.info.items() if k != "stack"},))
        groups = {}
        for o in res.returns():
            decs = o.state.facts.decisions()
            if not decs:
                R.undecided("C15-angle", "%s|try_from_degree|shape" % cfg, "a path without decisions")
                continue
            last = C.base_atoms(decs[-1][0])
            if len(last) != 1:
                R.undecided("C15-angle", "%s|try_from_degree|shape" % cfg, "final decision depends on %s" % (last,))
                continue
            x = next(iter(last))
            lo, hi = o.state.facts.atom_range(x)
            groups.setdefault(x, []).append((o, [d for d in decs if C.base_atoms(d[0]) == {x}], lo, hi))
        R.floor("%s|try_from_degree matched values" % cfg, len(groups), 2)
        for x, outs in groups.items():
            if x[0] == "i" and x[1] == "angle":
                rel_ok, rel = True, "v = angle"
            else:
                d = ex.alias_defs.get(x)
                rel_ok = bool(d) and d[0] == "rem_euclid" and d[2] % 360 == 0 and d[1].is_atom() is not None and d[1].is_atom()[1] == "angle"
                rel = "v = angle.rem_euclid(%s)" % (d[2] if d else "?")
            R.ob("C15-angle-congruence", "%s|try_from_degree|%s" % (cfg, rel), rel_ok,
                 "the matched value is not congruent to the angle modulo 360: %s" % (rel,))
            covered = set()
            for o, decs, lo, hi in outs:
                if lo is None or hi is None or lo < 0 or hi - lo > 4000:
                    R.undecided("C15-angle", "%s|try_from_degree|range|%s" % (cfg, rel), "matched value has no small non-negative range (%s,%s)" % (lo, hi))
                    continue
                sat = set()
                for n in range(lo, hi + 1):
                    if all(C.eval_poly(p, {x: n}) == val for p, val in decs):
                        sat.add(n)
                v = o.value
                if C.result_variant(v) == 0:
                    r = v.fields[0]
                    d = degree_of.get(r.variant) if isinstance(r, Agg) else None
                    R.ob("C15-angle-ok-arm", "%s|try_from_degree|%s|Ok(%s)|%s" % (cfg, rel, d, sorted(sat)[:3]),
                         d is not None and d % 90 == 0 and sat <= {d},
                         "try_from_degree returns the %s-degree rotation when the (reduced) angle is in %s" % (d, sorted(sat)[:8]),
                         sample={"relation": rel, "range": [lo, hi], "matched_values": sorted(sat)[:8], "result_degrees": d})
                else:
                    bad = sorted(n for n in sat if n % 90 == 0)
                    R.ob("C15-angle-err-arm", "%s|try_from_degree|%s|Err|%d values" % (cfg, rel, len(sat)), not bad,
                         "try_from_degree rejects the multiples of 90 %s (reduced angle range %s..%s)" % (bad[:8], lo, hi),
                         sample={"relation": rel, "range": [lo, hi], "rejected_values": len(sat)})
                covered |= sat
