"""shared analysis of the drawing entry points (C01, C02, C08, C20): per orientation case the
Display methods are interpreted with write_command kept abstract (its serialisation is C18)."""
import os
import exec as E
import trace as TR
from poly import Poly, ONE, ZERO, sym_int
from values import Agg, SymV, IntV, BoolV, Ptr
from rules import common as C

CASET = "mipidsi::dcs::set_column_address::SetColumnAddress"
RASET = "mipidsi::dcs::set_page_address::SetPageAddress"
RAMWR = "mipidsi::dcs::WriteMemoryStart"
ORIENTATIONS = [(q, m) for q in range(4) for m in (False, True)]


def abstract_wc(F):
    wc = F.trait_default_method("mipidsi::dcs::InterfaceExt", "write_command")
    if wc is None:
        raise E.Undecided("InterfaceExt::write_command not found")
    return wc


HVEC = "heapless::vec::Vec"


def accumulator_templates(F):
    """Houdini candidates for every crate struct that holds one heapless::Vec and some u16 fields (the row /
    block accumulators of the batching pipeline), generated from the field types only - no names, no
    declaration order: for every ordered pair (a, b) of u16 fields: b >= a and len == b - a + 1; for two
    disjoint pairs: len == (b - a + 1) * (d - c + 1); each unguarded and guarded by every bool field (both
    polarities)."""
    import itertools
    out = {}
    for a in F.adts.values():
        if not a["id"].startswith(F.crate + "::") or a["kind"] != "struct":
            continue
        fs = [{"name": n_, "ty": t_} for n_, _p, t_ in C.flat_field_types(F, a["id"])]
        vecs = [f["name"] for f in fs if f["ty"].get("k") == "adt" and f["ty"].get("def") == HVEC]
        u16s = [f["name"] for f in fs if f["ty"].get("k") == "int" and str(f["ty"].get("bits")) == "16" and not f["ty"].get("signed")]
        bools = [f["name"] for f in fs if f["ty"].get("k") == "bool"]
        if len(vecs) != 1 or len(u16s) < 2:
            continue

        def gen(fields, vec=vecs[0], u16s=tuple(u16s), bools=tuple(bools)):
            lv = fields[vec]
            if isinstance(lv, SymV):
                # a Vec known only as a symbol: its length under the name the heapless summaries use
                from poly import sym_int as _sym_int
                ln = _sym_int("len(%s)" % lv.name, F.pointer_bits, False)
            elif isinstance(lv, Agg) and lv.fields and isinstance(lv.fields[0], IntV):
                ln = lv.fields[0].poly()
            else:
                return []
            guards = [None]
            for b in bools:
                bv = fields[b]
                if isinstance(bv, BoolV):
                    guards += [bv.p, ONE - bv.p]
            cands = []
            # every ordered pair of u16 fields as (start, end)
            pairs = [(x, y) for x in u16s for y in u16s if x != y]
            for g in guards:
                for (x, y) in pairs:
                    px, py = fields[x].poly(), fields[y].poly()
                    cands.append((g, py - px))
                    cands.append((g, ln - (py - px + 1)))
                    cands.append((g, (py - px + 1) - ln))
                for i in range(len(pairs)):
                    for j in range(i + 1, len(pairs)):
                        (x, y), (u, v) = pairs[i], pairs[j]
                        if len({x, y, u, v}) < 4:
                            continue
                        area = (fields[y].poly() - fields[x].poly() + 1) * (fields[v].poly() - fields[u].poly() + 1)
                        cands.append((g, ln - area))
                        cands.append((g, area - ln))
            return cands
        out[a["id"]] = gen
    return out


def run_draw(R, F, rec, q, m, assume=None, args=None, no_merge=False, struct_inv=False, extra_abstract=()):
    ex = R.executor(F)
    ex.abstract_defs = {abstract_wc(F)["id"]} | set(extra_abstract)
    ex.no_merge = no_merge
    g = C.Geo(q, m)
    # template invariants P_win: an accumulator that only ever holds sanitised coordinates stays
    # inside the logical bounds (Houdini over loops, transferred through merges)
    ex.templates = [lambda v, g=g: g.lw - 1 - v, lambda v, g=g: g.lh - 1 - v]
    if struct_inv or os.environ.get("AIM_STRUCT_TEMPLATES") == "1":
        # relational Houdini candidates for the row / block accumulators of the batching pipeline
        ex.struct_templates = accumulator_templates(F)
    res = R.run_entry(ex, rec, init_mem=C.display_init_mem(ex, F, rec, q, m), assume=g.i_init() + (assume or []), args=args)
    return ex, g, res


def wsym(s):
    """kind of a WCMD symbol: 'CASET' / 'RASET' / 'RAMWR' / other type name"""
    v = s.extra
    name = v.name if isinstance(v, Agg) else (v.ty.get("def") if isinstance(v, SymV) else None)
    return {CASET: "CASET", RASET: "RASET", RAMWR: "RAMWR"}.get(name, name)


def frame_step(q, s):
    """DFA of C08(a): ( CASET RASET RAMWR (PIX|REP) )* at the Interface layer; NEXT / notes are ignored"""
    if s.cls in ("NEXT", "OTHER") or s.cls.startswith("ITER_"):
        return [q]
    if s.cls == "WCMD":
        k = wsym(s)
        if q == 0 and k == "CASET":
            return [1]
        if q == 1 and k == "RASET":
            return [2]
        if q == 2 and k == "RAMWR":
            return [3]
        return []
    if s.cls in ("PIX", "REP") and q == 3:
        return [0]
    return []


def windows(o, loops, orders):
    """[(annotated event record, kind, args)] for the address commands of an outcome"""
    out = []
    for a_ in TR.annotate(o.state.trace, loops):
        s = TR.classify(a_["ev"])
        if s.cls == "WCMD" and wsym(s) in ("CASET", "RASET") and isinstance(s.extra, Agg):
            out.append((a_, wsym(s), C.ctor_args(s.extra, orders[wsym(s)])))
    return out
