"""shared analysis of the drawing entry points (C01, C02, C08, C20): per orientation case the
Display methods are interpreted with write_command kept abstract (its serialisation is C18)."""
import exec as E
import trace as TR
from poly import Poly, ONE, ZERO, sym_int
from values import Agg, SymV, IntV, BoolV, Ptr
from rules import common as C

CASET = "mipidsi::dcs::set_column_address::SetColumnAddress"
RASET = "mipidsi::dcs::set_page_address::SetPageAddress"
RAMWR = "mipidsi::dcs::WriteMemoryStart"
ORIENTATIONS = [(q, m) for q in range(4) for m in (False, True)]


def abstract_wc(F):
    wc = F.trait_default_method("mipidsi::dcs::InterfaceExt", "write_command")
    if wc is None:
        raise E.Undecided("InterfaceExt::write_command not found")
    return wc


def run_draw(R, F, rec, q, m, assume=None, args=None, no_merge=False):
    ex = R.executor(F)
    ex.abstract_defs = {abstract_wc(F)["id"]}
    ex.no_merge = no_merge
    g = C.Geo(q, m)
    # template invariants P_win: an accumulator that only ever holds sanitised coordinates stays
    # inside the logical bounds (Houdini over loops, transferred through merges)
    ex.templates = [lambda v, g=g: g.lw - 1 - v, lambda v, g=g: g.lh - 1 - v]
    res = R.run_entry(ex, rec, init_mem=C.display_init_mem(ex, F, rec, q, m), assume=g.i_init() + (assume or []), args=args)
    return ex, g, res


def wsym(s):
    """kind of a WCMD symbol: 'CASET' / 'RASET' / 'RAMWR' / other type name"""
    v = s.extra
    name = v.name if isinstance(v, Agg) else (v.ty.get("def") if isinstance(v, SymV) else None)
    return {CASET: "CASET", RASET: "RASET", RAMWR: "RAMWR"}.get(name, name)


def frame_step(q, s):
    """DFA of C08(a): ( CASET RASET RAMWR (PIX|REP) )* at the Interface layer; NEXT / notes are ignored"""
    if s.cls in ("NEXT", "OTHER") or s.cls.startswith("ITER_"):
        return [q]
    if s.cls == "WCMD":
        k = wsym(s)
        if q == 0 and k == "CASET":
            return [1]
        if q == 1 and k == "RASET":
            return [2]
        if q == 2 and k == "RAMWR":
            return [3]
        return []
    if s.cls in ("PIX", "REP") and q == 3:
        return [0]
    return []


def windows(o, loops, orders):
    """[(annotated event record, kind, args)] for the address commands of an outcome"""
    out = []
    for a_ in TR.annotate(o.state.trace, loops):
        s = TR.classify(a_["ev"])
        if s.cls == "WCMD" and wsym(s) in ("CASET", "RASET") and isinstance(s.extra, Agg):
            out.append((a_, wsym(s), C.ctor_args(s.extra, orders[wsym(s)])))
    return out
