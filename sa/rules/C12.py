"""C12 - a failing pin or bus operation is reported, stops the call, wedges nothing."""
import exec as E
import trace as TR
from poly import Poly, ONE, ZERO
from values import Agg, SymV, IntV, BoolV, ITE, Term, Ptr, vkey
from rules import common as C

LEVEL = "fault_enumeration"
# (error enum, field of self that failed) -> variant that must wrap the error
VARIANT_OF_SOURCE = {
    "mipidsi::interface::spi::SpiError": {"spi": "Spi", "dc": "Dc"},
    "mipidsi::interface::parallel::ParallelError": {"bus": "Bus", "dc": "Dc", "wr": "Wr"},
    "mipidsi::builder::InitError": {"rst": "ResetPin", "di": "Interface"},
}
FALLIBLE_TRAITS = (TR.PIN, TR.SPI, TR.IFACE, TR.IPF, TR.BUS, TR.MODEL, "mipidsi::dcs::InterfaceExt")


def mentions(v, name, depth=0):
    """does value v contain the symbol `name` (error payload of the failing event)?"""
    if depth > 8 or v is None:
        return False
    if isinstance(v, SymV):
        return v.name == name or v.name.startswith(name + "@") or v.name.startswith(name + ".")
    if isinstance(v, Agg):
        return any(mentions(f, name, depth + 1) for f in v.fields)
    if isinstance(v, ITE):
        return mentions(v.a, name, depth + 1) or mentions(v.b, name, depth + 1)
    if isinstance(v, Term):
        return any(mentions(a, name, depth + 1) for a in v.args)
    if isinstance(v, IntV):
        return name in repr(v.poly())
    return False


def wrapper_chain(F, v, name, chain=None):
    """list of (enum def, variant name) wrapping the symbol `name` inside v"""
    chain = chain or []
    if isinstance(v, SymV) and (v.name == name or v.name.startswith(name + "@") or v.name.startswith(name + ".")):
        return chain
    if isinstance(v, Agg):
        for f in v.fields:
            nm = C.variant_name(F, v) if v.kind == "adt" else None
            r = wrapper_chain(F, f, name, chain + ([(v.name, nm)] if nm else []))
            if r is not None:
                return r
    if isinstance(v, ITE):
        return wrapper_chain(F, v.a, name, chain) or wrapper_chain(F, v.b, name, chain)
    return None


def entries(F):
    """every non-mock function that can perform a fallible hardware / interface operation"""
    out = []
    for b in F.bodies.values():
        if F.is_mock(b) or b["kind"] != "AssocFn" and b["kind"] != "Fn":
            continue
        c = b["container"]
        tr = c.get("trait") or ""
        if tr.startswith("core::") and tr != "core::iter::traits::iterator::Iterator":
            continue
        has_call = False
        for blk in b["body"]["blocks"]:
            t = blk["term"]
            if t["k"] == "call" and t.get("callee"):
                ct = t["callee"]["container"].get("trait")
                if ct in FALLIBLE_TRAITS:
                    has_call = True
        if has_call:
            out.append(b)
    # ... and every function that reaches one of those through calls of crate functions (draw_iter -> set_pixel ->
    # write_command): an error can be dropped at any level (`self.set_pixel(..).ok();`)
    ids = set(b["id"] for b in out)
    cands = [b for b in F.bodies.values() if not F.is_mock(b) and b["kind"] in ("AssocFn", "Fn", "Closure") and b["id"] not in getattr(F, "prelude", {})]
    changed = True
    while changed:
        changed = False
        for b in cands:
            if b["id"] in ids:
                continue
            hit = False
            for blk in b["body"]["blocks"]:
                t = blk["term"]
                if t["k"] == "call" and t.get("callee") and t["callee"].get("def") in ids:
                    hit = True
            if not hit:
                continue
            tgt = b
            while tgt is not None and tgt["kind"] == "Closure":
                tgt = F.bodies.get(tgt.get("parent_fn"))
            if tgt is None or F.is_mock(tgt):
                continue
            tr = (tgt["container"].get("trait") or "")
            ids.add(b["id"])
            changed = True
            if tgt["id"] not in ids or tgt is b:
                ids.add(tgt["id"])
                if tgt["kind"] in ("AssocFn", "Fn") and not (tr.startswith("core::") and tr != "core::iter::traits::iterator::Iterator") \
                        and all(o["id"] != tgt["id"] for o in out):
                    out.append(tgt)
    return sorted(out, key=lambda b: b["id"])


def decide_atom(a, known, decisions, conds):
    """is boolean atom `a` forced by the path? 1 / 0 forced, -1 branched on but free, None never inspected"""
    if a in known:
        return known[a]
    asg = {}
    for c in conds:
        x = c.is_atom()
        if x is not None:
            asg[x] = 1
        else:
            y = (ONE - c).is_atom()
            if y is not None:
                asg[y] = 0
    seen = False
    can1 = can0 = True
    polys = list(decisions) + [(c, 1) for c in conds]
    for p, val in polys:
        if a not in p.atoms():
            continue
        seen = True
        q = p.subst(asg)
        v1 = q.subst({a: 1}).const_value()
        v0 = q.subst({a: 0}).const_value()
        if v1 is not None and v1 != val:
            can1 = False
        if v0 is not None and v0 != val:
            can0 = False
    if not seen:
        return None
    if can1 and not can0:
        return 1
    if can0 and not can1:
        return 0
    return -1


def really_followed(o, res, a_):
    """annotate()'s `follower` flag counts events of alternatives this outcome did not take (the trace of a merged
    state keeps them, with their conditions). Decide it per linear path instead: on some path that is feasible under
    the outcome's facts, does a hardware event (or a loop that performs some) come after the event?"""
    if not a_["follower"] or a_["in_loop"]:
        return a_["follower"]
    ev = a_["ev"]
    f = o.state.facts
    try:
        paths = TR.linearize(o.state.trace, limit=2048)
    except E.Undecided:
        return True
    for cond, items in paths:
        if f.simplify(cond).const_value() == 0:
            continue
        idx = [i for i, it in enumerate(items) if it is ev]
        if not idx:
            continue
        for it in items[idx[0] + 1:]:
            if isinstance(it, E.Ev) and it.kind == "call":
                return True
            if isinstance(it, E.LoopMark) and it.loop_id in res.loops and any(TR._has_events(c["trace"], res.loops) for c in res.loops[it.loop_id]["cont"]):
                return True
    return False


def is_result(v):
    return isinstance(v, SymV) and v.ty.get("k") == "adt" and v.ty["def"] == "core::result::Result"


def run(R):
    R.trusted = ["rustc nightly MIR construction", "AIM interpreter (every `?` is an explicit error edge of the MIR)",
                 "C07(b) for the bus cache, C13 / C10 for the sleeping flag and the stored orientation"]
    R.explanation = ("Fault enumeration over the control-flow graph instead of over runs: every function of the crate that performs a "
                     "fallible pin / SPI / bus / interface operation is interpreted; each fallible event forks into its Ok and Err edge. "
                     "For every path on which the k-th operation fails (all k, all operations, every model init, both transports): the "
                     "call returns Err containing exactly that error, wrapped in the variant naming its source; no further hardware "
                     "event follows; no panic is reachable; and no path ignores the result of a fallible operation. State that later "
                     "behaviour reads (sleeping flag, options) is unchanged on error paths. Not decided: what a real controller does "
                     "with a half-sent command.")
    from rules import C07 as _C07
    for cfg in R.configs:
        F = R.facts(cfg)
        # "wedges nothing" for the parallel bus: the cached bus value must be invalidated by a failed pin
        # update (the per-pin obligations of C07(b), re-checked here because this property depends on them)
        for rec in F.trait_impl_method(TR.BUS, "set_value"):
            width = 8 if rec["body"]["locals"][2]["ty"].get("s") == "u8" else 16
            _C07.check_set_value(R, F, cfg, rec, width)
        ents = entries(F)
        R.floor("%s|functions with fallible operations" % cfg, len(ents), 30)
        nfail = 0
        nev = 0
        for rec in ents:
            ex = R.executor(F)
            try:
                res = R.run_entry(ex, rec)
            except E.Undecided as e:
                R.undecided("C12", "%s|%s|undecided" % (cfg, rec["pretty"]), str(e))
                continue
            tag = "%s|%s" % (cfg, rec["pretty"])
            ret_ty = rec["body"]["locals"][0]["ty"]
            ret_is_result = ret_ty.get("k") == "adt" and ret_ty["def"] == "core::result::Result"
            err_enum = None
            if ret_is_result:
                et = ret_ty["args"][1]
                if et.get("k") == "adt" and et["def"] in VARIANT_OF_SOURCE:
                    err_enum = et["def"]
            bad_panic = []
            for o in res.outcomes:
                known = o.state.facts.known
                ann = TR.annotate(o.state.trace, res.loops)
                decs = o.state.facts.decisions()
                for k, a_ in enumerate(ann):
                    ev = a_["ev"]
                    if not is_result(ev.ret):
                        continue
                    if a_["known"] is None and any(o.state.facts.simplify(c_).const_value() == 0 for c_ in a_["conds"]):
                        continue        # the event sits in an alternative this outcome did not take
                    nev += 1
                    a = ("var", ev.ret.name, 1, 2)
                    if a_["known"] is not None:
                        failed = a_["known"].get(a)
                        if failed is None:
                            failed = decide_atom(a, a_["known"], a_.get("decisions") or [], a_["conds"])
                    else:
                        failed = decide_atom(a, known, decs, a_["conds"])
                    extra = ""
                    if ev.method == "send_command" and len(ev.args) > 1 and isinstance(ev.args[1], IntV):
                        cv = ev.args[1].const()
                        extra = " op=%s #%d" % ("0x%02X" % cv if cv is not None else "?", k)
                    desc = "%s::%s(%s%s) @%s" % ((ev.trait or "?").split("::")[-1], ev.method, ev.names[0] if ev.names else "?", extra, ev.where())
                    if failed is None:
                        # the result was never inspected on this path: fine only if it IS the return value
                        ok = o.kind == "return" and not a_["follower"] and mentions(o.value, ev.ret.name)
                        R.ob("C12-result-not-ignored", "%s|ignored|%s" % (tag, desc), ok,
                             "the result of %s is neither checked nor returned: a failure would be silently dropped" % desc, ev.where())
                        continue
                    if failed == -1:
                        # the outcome of the operation was looked at, but the path goes on the same way whether it failed
                        # or not (e.g. `op().ok();`, `let _ = op();` after a match, `if op().is_err() {}`)
                        R.ob("C12-stop-after-failure", "%s|either-way|%s" % (tag, desc), not really_followed(o, res, a_),
                             "the call goes on with further hardware operations whether or not %s failed: a failure is dropped" % (desc,),
                             ev.where(), sample={"fn": rec["pretty"], "op": desc, "decided": "no"})
                        continue
                    if failed == 1:
                        nfail += 1
                        if o.kind == "panic":
                            bad_panic.append((desc, o.info))
                            continue
                        R.ob("C12-stop-after-failure", "%s|stop|%s" % (tag, desc), not really_followed(o, res, a_),
                             "after %s failed the call still performs hardware operations" % (desc,), ev.where(),
                             sample={"fn": rec["pretty"], "failing_op": desc, "events_after": a_["follower"]})
                        if ret_is_result:
                            ename = ev.ret.name + "@Err"
                            isErr = C.result_variant(o.value) == 1
                            R.ob("C12-error-returned", "%s|returned|%s" % (tag, desc), isErr and mentions(o.value, ename),
                                 "after %s failed the call returns %r instead of that error" % (desc, o.value), ev.where())
                            if err_enum and isErr:
                                src = (ev.names[0] or "").split(".")[-1].split("@")[0] if ev.names else ""
                                want = VARIANT_OF_SOURCE[err_enum].get(src)
                                chain = wrapper_chain(F, o.value.fields[0], ename) or []
                                got = [vn for d, vn in chain if d == err_enum]
                                if want is not None:
                                    R.ob("C12-error-variant", "%s|variant|%s" % (tag, desc), got[:1] == [want],
                                         "an error of `%s` must be reported as %s::%s, got %s" % (src, err_enum.split("::")[-1], want, got), ev.where(),
                                         sample={"fn": rec["pretty"], "source": src, "variant": got})
                        else:
                            R.ob("C12-error-returned", "%s|returned|%s" % (tag, desc), False,
                                 "%s performs a fallible operation but cannot report its failure" % rec["pretty"], ev.where())
            for desc, info in bad_panic[:5]:
                R.ob("C12-no-panic-on-fault", "%s|panic|%s" % (tag, desc), False,
                     "a failure of %s leads to a panic: %s" % (desc, {k: v for k, v in info.items() if k != "stack"}))
            # state read by later behaviour is unchanged on error paths of Display methods
            st0 = rec["container"].get("self_ty") or {}
            if st0.get("def") == C.DISPLAY and rec in C.display_methods(F):
                for o in res.returns():
                    # an error path: an explicit Err, or the Result of the last fallible call handed back as it is
                    # (then the state reached here is also the state after that call failed)
                    tail = isinstance(o.value, SymV) and o.value.ty.get("k") == "adt" and o.value.ty.get("def") == "core::result::Result"
                    if C.result_variant(o.value) != 1 and not tail:
                        continue
                    d = C.deref_self(ex, o.state)
                    for fld in ("sleeping", "options"):
                        cur = C.get_field(ex, o.state, d, C.DISPLAY, fld)
                        ini = ex.mk_sym(F.adts[C.DISPLAY]["variants"][0]["fields"][C.struct_field_index(F, C.DISPLAY, fld)]["ty"], "*self." + fld)
                        same = vkey(cur) == vkey(ini) or (isinstance(cur, Agg) and isinstance(ini, SymV) and vkey(cur) == vkey(ex.expand_sym(ini)))
                        if not same and isinstance(cur, Agg):
                            # compare field-wise after expansion of nested symbols
                            same = repr(cur) == repr(ex.expand_sym(ini)) if isinstance(ini, SymV) else False
                        R.ob("C12-state-unchanged-on-error", "%s|state|%s" % (tag, fld), same,
                             "on an error path %s.%s becomes %r" % (rec["pretty"], fld, cur))
        R.counts["%s|fallible events on paths" % cfg] = nev
        R.floor("%s|failure paths enumerated" % cfg, nfail, 180)
