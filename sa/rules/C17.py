"""C17 - reset comes first: >= 10 us low pulse on the reset pin, or exactly one software reset."""
import trace as TR
import exec as E
from poly import ONE, ZERO
from values import Agg, SymV
from rules import common as C

LEVEL = "proof"
SOFT_RESET = 0x01


def rst_some_cond(c):
    """condition c restricted to 'reset pin configured' / 'not configured'"""
    some = c
    none = c
    for a in c.atoms():
        if a[0] == "var" and a[1] == "self.rst":
            some = some.subst({a: 1})
            none = none.subst({a: 0})
    return some, none


def run(R):
    R.trusted = ["rustc nightly MIR construction", "AIM interpreter", "embedded-hal trait contracts: OutputPin::set_low/high, DelayNs::delay_* are the hardware events"]
    R.explanation = ("Builder::init (polymorphic in DI, MODEL, RST: all models, transports, options) is interpreted on a symbolic "
                     "Option<RST>; every path is classified by its event word. With a pin: PIN_LO(rst) . DELAY>=10us . PIN_HI(rst) and no "
                     "bus event before PIN_HI, no soft reset; without: exactly one CMD(0x01) first. Model::init follows the reset on "
                     "every path and error paths are prefixes. Crate-wide inventories: the reset pin is driven nowhere else, no model "
                     "init sends a soft reset, Display is constructed only by Builder::init.")
    R.witnesses('W1', 'C17-witness-no-display-without-init')
    for cfg in R.configs:
        F = R.facts(cfg)
        ex = R.executor(F)
        rec = C.builder_init(F)
        res = R.run_entry(ex, rec)
        tag = "%s|Builder::init" % cfg
        npaths = 0
        for o in res.outcomes:
            if o.kind != "return":
                continue
            cond0 = C.outcome_cond(o)
            for c, syms in C.lin_paths(o):
                cc = cond0 * c
                if cc.const_value() == 0:
                    continue
                some, none = rst_some_cond(cc)
                has_pin = some.const_value() != 0
                no_pin = none.const_value() != 0
                if not syms:
                    continue  # rejected configuration (C09)
                npaths += 1
                word = [repr(s) for s in syms]
                where = TR.where(syms[0].ev)
                # split at MODEL_INIT
                mi = [i for i, s in enumerate(syms) if s.cls == "MODEL_INIT"]
                pre = syms[:mi[0]] if mi else syms
                post = syms[mi[0] + 1:] if mi else []
                ok_v = C.result_variant(o.value) == 0
                R.ob("C17-model-init-after-reset", "%s|%s|single-model-init" % (tag, word), len(mi) <= 1 and (len(mi) == 1 or not ok_v),
                     "success path without exactly one Model::init after the reset: %s" % word, where)
                R.ob("C17-nothing-after-model-init", "%s|%s|post" % (tag, word), not post,
                     "events after Model::init inside Builder::init: %s" % [repr(s) for s in post], where)
                pin_evs = [s for s in pre if s.cls in ("PIN_LO", "PIN_HI")]
                if pin_evs and has_pin and not no_pin:
                    # hardware reset shape (a prefix of it on an error path)
                    shape = [s.cls for s in pre]
                    # PIN_LO . DELAY+ . PIN_HI . DELAY* : further waiting, while low or after the pin is high again, is
                    # within the property (>= 10 us low, nothing on the bus before the pin is high)
                    import re as _re
                    word_ = "".join({"PIN_LO": "L", "PIN_HI": "H", "DELAY": "D"}.get(c, "x") for c in shape)
                    complete = _re.fullmatch(r"LD+HD*", word_) is not None
                    is_prefix = complete or _re.fullmatch(r"L(D+H?)?", word_) is not None
                    R.ob("C17-hw-pulse-shape", "%s|%s" % (tag, word), is_prefix and (complete or not mi),
                         "with a reset pin the events before Model::init must be PIN_LO . DELAY+ . PIN_HI . DELAY* (or a prefix ending at a "
                         "failing pin operation), got %s" % shape, where, sample={"reset_pin": True, "word": word, "condition": repr(cc)})
                    recvs = set(s.recv for s in pin_evs)
                    R.ob("C17-hw-pulse-same-pin", "%s|%s|recv" % (tag, word), len(recvs) == 1 and all("rst" in (r or "") for r in recvs),
                         "reset pulse drives %s instead of the configured reset pin" % recvs, where)
                    hi_at = [i for i, s in enumerate(pre) if s.cls == "PIN_HI"]
                    low_delays = [s for s in (pre[:hi_at[0]] if hi_at else pre) if s.cls == "DELAY"]
                    if low_delays:
                        tot = sum(s.ns for s in low_delays) if all(s.ns is not None for s in low_delays) else None
                        R.ob("C17-pulse-width", "%s|%s|delay" % (tag, word), tot is not None and tot >= 10000,
                             "reset pulse low time is %s ns, need >= 10000 ns" % (tot,), TR.where(low_delays[0].ev))
                    R.ob("C17-no-soft-reset-with-pin", "%s|%s|nosoft" % (tag, word),
                         not any(s.cls == "CMD" for s in pre), "bus traffic before the reset pin is high again: %s" % word, where)
                elif not pin_evs and no_pin and not has_pin:
                    shape = [(s.cls, s.op) for s in pre]
                    R.ob("C17-soft-reset-first", "%s|%s" % (tag, word), shape == [("CMD", SOFT_RESET)] and pre[0].params == [],
                         "without a reset pin the only event before Model::init must be one CMD(0x01) without parameters, got %s" % word,
                         where, sample={"reset_pin": False, "word": word, "condition": repr(cc)})
                else:
                    R.ob("C17-branch-consistency", "%s|%s" % (tag, word), False,
                         "reset events %s do not match the reset-pin configuration (pin possible=%s, no-pin possible=%s)" % (word, has_pin, no_pin), where)
        R.floor("%s classified paths" % tag, npaths, 6)

        # inventory 1: the RST pin is driven only by Builder::init
        sites = []
        for b in F.bodies.values():
            if F.is_mock(b):
                continue
            for blk in b["body"]["blocks"]:
                t = blk["term"]
                if t["k"] == "call" and t.get("callee") and t["callee"]["container"].get("trait") == TR.PIN:
                    a0 = t["callee"]["args"][0]
                    if a0.get("k") == "param" and a0.get("name") == "RST":
                        sites.append((b["id"], t["callee"]["name"], t["span"]["line"]))
        # a site is fine if the function it sits in can only be entered through Builder::init: init itself, or a
        # private helper all of whose (transitive) callers are private helpers of that kind or init
        calls = {}
        for b in F.bodies.values():
            for blk in b["body"]["blocks"]:
                t = blk["term"]
                if t["k"] == "call" and t.get("callee"):
                    calls.setdefault(t["callee"]["def"], set()).add(b["id"])

        def only_from_init(fid, seen=()):
            if fid == rec["id"]:
                return True
            b = F.bodies.get(fid)
            if b is None or fid in seen or b.get("public", True) or b["container"].get("kind") == "trait_impl":
                return False
            cs = calls.get(fid, set())
            return bool(cs) and all(only_from_init(c, seen + (fid,)) for c in cs)
        outside = [s for s in sites if not only_from_init(s[0])]
        R.ob("C17-rst-pin-owner", "%s|who-drives-RST" % cfg, not outside and len(sites) >= 2,
             "reset pin operations: %s (expected exactly set_low and set_high in Builder::init)" % sites)
        # inventory 2: Display is only constructed by Builder::init
        ctors = []
        for b in F.bodies.values():
            for blk in b["body"]["blocks"]:
                for s in blk["stmts"]:
                    if s["k"] == "assign" and s["rv"]["k"] == "aggregate" and s["rv"]["kind"].get("def") == C.DISPLAY:
                        ctors.append(b["id"])
        R.ob("C17-display-constructor", "%s|who-constructs-Display" % cfg, set(ctors) == {rec["id"]},
             "Display is constructed in %s; a display that skipped the reset could exist" % sorted(set(ctors)))
        # inventory 3: no model init sends a software reset; all raw opcodes are constants
        models = C.model_inits(F)
        R.floor("%s impl Model" % cfg, len(models), 14)
        for adt, mrec in models:
            mres = R.run_entry(R.executor(F), mrec)
            bad = []
            nonconst = []
            for o in mres.outcomes:
                for ev in TR.flatten_events(o.state.trace, mres.loops):
                    s = TR.classify(ev)
                    if s is not None and s.cls == "CMD":
                        if not s.ops:
                            nonconst.append(repr(s))
                        elif SOFT_RESET in s.ops:
                            bad.append(TR.where(ev))
            R.ob("C17-model-no-soft-reset", "%s|%s" % (cfg, adt), not bad and not nonconst,
                 "model init sends a software reset at %s / non-constant opcodes %s (reset must happen exactly once, before model commands)" % (bad, nonconst))
