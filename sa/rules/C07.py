"""C07 - parallel transport: the values latched at each write strobe are the words sent; the data
pins always show the last value written (bus cache invariant under pin failures)."""
import exec as E
import trace as TR
from poly import Poly, ONE, ZERO, b_xor, unfold_bits, sym_int
from values import Agg, SymV, IntV, BoolV, Term, Ptr, vkey
from rules import common as C

LEVEL = "other"
PIF = "mipidsi::interface::parallel::ParallelInterface"
OPTION = "core::option::Option"


def recv_is(s, suffix):
    return (s.recv or "").endswith(suffix)


def strobe_dfa(word_ok):
    """DFA fragment for one word: WR low and bus := word (in either order), then WR high: the value
    latched at the rising edge is the word. States: w0 (start), wL (low seen), wB (bus set), w2 (both), w3 (done)"""
    def step(q, s):
        is_lo = s.cls == "PIN_LO" and recv_is(s, ".wr")
        is_bus = s.cls == "BUS" and recv_is(s, ".bus") and word_ok(s)
        if q == "w0":
            return ["wL"] if is_lo else ["wB"] if is_bus else []
        if q == "wL":
            return ["w2"] if is_bus else []
        if q == "wB":
            return ["w2"] if is_lo else []
        if q == "w2" and s.cls == "PIN_HI" and recv_is(s, ".wr"):
            return ["w3"]
        return []
    return step


def bus_word(s):
    return s.ev.args[1] if len(s.ev.args) > 1 else None


def is_from_of(v, pred):
    return isinstance(v, Term) and v.fn.startswith("From::from") and len(v.args) == 1 and pred(v.args[0])


def check_set_value(R, F, cfg, rec, width):
    ex = R.executor(F)
    res = R.run_entry(ex, rec)
    tag = "%s|%d-bit set_value" % (cfg, width)
    some = Poly.atom(("var", "*self.last", 1, 2))
    vbit = [C.bit("value", width, k) for k in range(width)]
    obit = [C.bit("*self.last@Some.0", width, k) for k in range(width)]
    diff = [b_xor(vbit[k], obit[k]) for k in range(width)]
    from poly import cmp_eq
    early = some * cmp_eq(sym_int("*self.last@Some.0", width, False), sym_int("value", width, False))
    nsucc = 0
    pins_seen = set()
    by_pin = {}
    for o in res.outcomes:
        if o.kind == "panic":
            R.ob("C07b-no-panic", "%s|panic|%s" % (tag, o.info.get("cond")), False, "set_value can panic: %s" % ({k: v for k, v in o.info.items() if k != "stack"},))
            continue
        last = ex.read(o.state, ("O", "*self"), (("f", C.struct_field_index(F, rec["container"]["self_ty"]["def"], "last"), None),))
        ann = TR.annotate(o.state.trace, res.loops)
        is_ok = C.result_variant(o.value) == 0
        if is_ok and not ann:
            # early return: only when the cache equals the value; cache untouched
            cond = C.outcome_cond(o, only=C.is_input_atom)
            R.ob("C07b-early-return-only-if-cached", "%s|early" % tag, cond == early,
                 "set_value returns without touching the pins under  %r  but that is only sound when the cache holds the value:  %r" % (cond, early),
                 sample={"case": "early return", "condition": repr(cond)})
            R.ob("C07b-cache-untouched-on-early-return", "%s|early|cache" % tag, isinstance(last, SymV) and last.name == "*self.last",
                 "early return changes the cache to %r" % (last,))
            continue
        if is_ok:
            nsucc += 1
            want = Agg("adt", OPTION, 1, [IntV(width, False, p=sym_int("value", width, False))])
            got_ok = isinstance(last, Agg) and last.variant == 1 and unfold_bits(last.fields[0].poly()) == unfold_bits(sym_int("value", width, False))
            R.ob("C07b-cache-set-after-success", "%s|cache-after-success" % tag, got_ok,
                 "after all pins were written the cache must be Some(value), it is %r" % (last,))
            # per pin: accumulate the condition under which each level is driven (over all success paths)
            oc = C.outcome_cond(o, only=C.is_input_atom)
            for a_ in ann:
                s = TR.classify(a_["ev"])
                if s.cls not in ("PIN_LO", "PIN_HI"):
                    R.ob("C07b-only-pin-events", "%s|event|%r" % (tag, s), False, "unexpected event in set_value: %r" % (s,))
                    continue
                cond = oc
                for c in a_["conds"]:
                    cond = cond * c
                # "previous operation succeeded" atoms: success
                sub = {a: 0 for a in cond.atoms() if a[0] == "var" and "#" in a[1]}
                cond = cond.subst(sub)
                by_pin[(s.recv, s.cls)] = by_pin.get((s.recv, s.cls), ZERO) + cond
        else:
            # a pin failed: the cache must be empty so that the next call rewrites every pin
            R.ob("C07b-cache-empty-after-failure", "%s|cache-after-failure|%r" % (tag, o.value), isinstance(last, Agg) and last.variant == 0,
                 "after a failed pin update the cache is %r; it must be None, otherwise later calls skip pins whose level is unknown" % (last,),
                 sample={"case": "pin failure", "cache": repr(last)})
    for k in range(width):
        pin = "*self.pins.%d" % k
        chg = (ONE - some) + some * diff[k]
        hi = unfold_bits(by_pin.get((pin, "PIN_HI"), ZERO))
        lo = unfold_bits(by_pin.get((pin, "PIN_LO"), ZERO))
        if (pin, "PIN_HI") in by_pin or (pin, "PIN_LO") in by_pin:
            pins_seen.add(pin)
        want_hi = unfold_bits((ONE - early) * chg * vbit[k])
        want_lo = unfold_bits((ONE - early) * chg * (ONE - vbit[k]))
        R.ob("C07b-pin-written-iff-changed", "%s|pin%d|high" % (tag, k), hi == want_hi,
             "data pin %d is driven high under  %r  ; it must be exactly when the cache does not already hold the value, (cache empty "
             "or bit differs) and the bit is 1:  %r" % (k, hi, want_hi), sample={"pin": k, "set_high_when": repr(hi)})
        R.ob("C07b-pin-written-iff-changed", "%s|pin%d|low" % (tag, k), lo == want_lo,
             "data pin %d is driven low under  %r  ; it must be exactly when the cache does not already hold the value, (cache empty "
             "or bit differs) and the bit is 0:  %r" % (k, lo, want_lo))
    R.floor("%s success paths" % tag, nsucc, 1)
    R.floor("%s pins" % tag, len(pins_seen), width)


def counter_loop_bounds(ex, l):
    """(start, bound) of a loop driven by an integer counter: some loop-carried integer c is incremented by exactly 1 on
    every path round the loop, and every such path was entered under the test c < B with B not changed by the loop"""
    from poly import atom_pred_poly
    est = l.get("entry_state")
    if est is None or not l["cont"]:
        return None
    for r, v in est.mem.items():
        if not (isinstance(v, IntV) and v.poly().is_atom() is not None and "loop:" in repr(v.poly())):
            continue
        ch = v.poly()
        bound = None
        ok = True
        for c in l["cont"]:
            end = c["state"].mem.get(r)
            if not (isinstance(end, IntV) and c["state"].facts.simplify(end.poly() - ch - 1).const_value() == 0):
                ok = False
                break
            b_here = None
            for pdec, val in c["state"].facts.decisions():
                a = pdec.is_atom()
                if a is None or a[0] != "ge" or val != 1:
                    continue
                inner = atom_pred_poly(a)            # inner >= 0 was assumed: looking for B - c - 1
                cand = inner + ch + 1
                if ch.is_atom() in inner.atoms() and not any("loop:" in repr(x) for x in cand.atoms()):
                    b_here = cand
            if b_here is None or (bound is not None and bound != b_here):
                ok = False
                break
            bound = b_here
        if ok and bound is not None:
            names = [k for k, v0 in l["entry_values"].items() if isinstance(v0, IntV)]
            start = None
            for k, v0 in l["entry_values"].items():
                if isinstance(v0, IntV) and k.split("~")[0] == ex.describe_loc(r, ()):
                    start = v0.poly()
            if start is not None:
                return start, bound
    return None


def run(R):
    R.trusted = ["rustc nightly MIR construction", "AIM interpreter (bit-sliced values, join merging, loop havoc)",
                 "embedded-hal OutputPin contract; BUS::Word: From<u8> is a pure function of the byte",
                 "finite iterators: slice / array / Range iteration visits each element once, in order"]
    R.explanation = ("(a) send_word / send_command / send_pixels of ParallelInterface are interpreted to event words: every word is "
                     "WR low, bus := word, WR high; the command byte is strobed with DC low, DC goes high before the parameters, each "
                     "parameter / pixel word comes from the next element of the slice / array in order; checked with a DFA over the trace "
                     "tree including loops. (b) both OutputBus::set_value bodies (8/16 bit): per data pin, the pin is driven iff the cache "
                     "is empty or the bit differs, to the level of the bit (polynomial equality per pin), early return only if the cache "
                     "equals the value, cache = Some(value) only after all pins succeeded and None after any pin failure: the inductive "
                     "step of 'pins show the last value written' under any failure pattern. (c) the repeated-pixel fast path: one full "
                     "word, then a Range loop 1..count*N of bare WR strobes with no bus update; is_same returns Some only for equal "
                     "words; the strobe count arithmetic must not overflow. Not decided: electrical timing.")
    for cfg in R.configs:
        F = R.facts(cfg)
        # ---------------- (b) bus cache invariant
        buses = F.trait_impl_method(TR.BUS, "set_value")
        R.floor("%s|impl OutputBus" % cfg, len(buses), 2)
        for rec in buses:
            width = C.one([p for p in [8, 16] if ("u%d" % p) == (rec["body"]["locals"][2]["ty"].get("s"))], "bus word width")
            check_set_value(R, F, cfg, rec, width)
        # ---------------- (a) strobes
        ex = R.executor(F)
        sw = C.one([b for b in F.inherent_method(PIF, "send_word")], "ParallelInterface word strobe")
        res = R.run_entry(ex, sw)
        for o in res.returns():
            syms = [s for c, ss in C.lin_paths(o) for s in ss]
            shape = [s.cls for s in syms]
            wstep = strobe_dfa(lambda s: isinstance(bus_word(s), SymV) and bus_word(s).name == "word")
            qs = {"w0"}
            for s_ in syms:
                qs = set(x for q in qs for x in wstep(q, s_))
            ok = bool(qs) and (C.result_variant(o.value) == 1 or "w3" in qs)
            R.ob("C07a-word-strobe", "%s|send_word|%s" % (cfg, shape), ok,
                 "a word must be sent as WR low, bus := word, WR high (prefix on failure); got %s" % [repr(s) for s in syms],
                 sample={"fn": "send_word", "word": [repr(s) for s in syms]})
        # send_command
        sc = C.one(F.trait_impl_method(C.IFACE, "send_command", self_adt=PIF), "ParallelInterface::send_command")
        ex = R.executor(F)
        res = R.run_entry(ex, sc)
        cmd_strobe = strobe_dfa(lambda s: is_from_of(bus_word(s), lambda a: isinstance(a, IntV) and repr(a.poly()) == "command"))
        # a parameter word: an item yielded by the iterator over `args`, or `args[i]` with i the item of an index range
        arg_strobe = strobe_dfa(lambda s: is_from_of(bus_word(s), lambda a: isinstance(a, IntV) and (
            ("next#" in repr(a.poly()) and "@Some" in repr(a.poly()) and not repr(a.poly()).startswith("elem("))
            or (a.poly().is_atom() is not None and repr(a.poly()).startswith("elem(*args)[next#") and "@Some" in repr(a.poly())))))

        def step(q, s):
            if q == "start" and s.cls == "PIN_LO" and recv_is(s, ".dc"):
                return ["w0"]
            if q in ("w0", "wL", "wB", "w2"):
                return cmd_strobe(q, s)
            if q == "w3" and s.cls == "PIN_HI" and recv_is(s, ".dc"):
                return ["args"]
            if q == "args" and s.cls == "NEXT":
                return ["a:w0", "end"]      # (a guess: the item is Some / None; a wrong guess is dropped, not rejected)
            if q in ("end", "#drop"):
                return ["#drop"]
            if q.startswith("a:"):
                r = arg_strobe(q[2:], s)
                return ["args" if x == "w3" else "a:" + x for x in r]
            return []
        nsucc = 0
        for o in res.outcomes:
            if o.kind == "panic":
                R.ob("C07a-no-panic", "%s|send_command|panic" % cfg, False, "send_command can panic: %s" % ({k: v for k, v in o.info.items() if k != "stack"},))
                continue
            fin = TR.dfa_run(o.state.trace, res.loops, {"start"}, step, o.state.facts, True)
            if C.result_variant(o.value) == 0:
                nsucc += 1
                # every path of a successful call is the whole word (not: some path is)
                R.ob("C07a-command-word", "%s|send_command|success" % cfg, "end" in fin and TR.REJECT not in fin,
                     "send_command must be: DC low, strobe(command), DC high, then one strobe per parameter byte in slice order "
                     "(DFA states reached: %s)" % sorted(fin), sample={"fn": "send_command", "dfa_states": sorted(fin)})
            else:
                R.ob("C07a-command-word", "%s|send_command|error-prefix|%r" % (cfg, o.value), bool(fin) and TR.REJECT not in fin,
                     "an error path of send_command is not a prefix of the command word")
        R.floor("%s|send_command success paths" % cfg, nsucc, 1)
        # the loop iterates the `args` slice itself
        for lid, l in res.loops.items():
            # what the loop pulls from: the receiver of its `next` events must be a front-to-back iterator over `args`
            # (directly, or behind copied / map adaptors, whose own `next` delegates to it)
            srcs = []
            for c in l["cont"]:
                for e in TR.flatten_events(c["trace"], res.loops):
                    if e.kind == "call" and TR.classify(e).cls == "NEXT" and e.pointees:
                        srcs.append(e.pointees[0])
            ok = bool(srcs) and all(isinstance(v, Agg) and (v.name or "") == "core::slice::iter" and isinstance(v.fields[0], Ptr)
                                    and v.fields[0].root == ("O", "*args") for v in srcs)
            if not ok and srcs and all(isinstance(v, Agg) and (v.name or "") == "core::ops::range::Range" for v in srcs):
                # an index loop `for i in 0..args.len() { .. args[i] .. }`: the range is 0..len(args) on entry and every
                # word put on the bus in an iteration is args[item of that iteration]
                ln = sym_int("len(args)", F.pointer_bits, False)
                starts = [v for k, v in l["entry_values"].items() if isinstance(v, IntV) and k.split("~")[0].endswith((".start", ".0"))]
                whole = [v for k, v in l["entry_values"].items() if isinstance(v, Agg) and (v.name or "") == "core::ops::range::Range"]
                starts += [v.fields[0] for v in whole if isinstance(v.fields[0], IntV)]
                ok = bool(starts) and all(v.poly() == ZERO for v in starts) \
                    and all(isinstance(v.fields[1], IntV) and v.fields[1].poly() == ln for v in srcs)
                for c in l["cont"]:
                    evs_ = [e for e in TR.flatten_events(c["trace"], res.loops) if e.kind == "call"]
                    items = [e.ret.name for e in evs_ if TR.classify(e).cls == "NEXT" and isinstance(e.ret, SymV)]
                    words = [bus_word(TR.classify(e)) for e in evs_ if TR.classify(e).cls == "BUS"]
                    ok = ok and len(items) == 1 and bool(words) and all(
                        is_from_of(w, lambda a: isinstance(a, IntV) and repr(a.poly()).startswith("elem(*args)[%s@Some.0]" % items[0])) for w in words)
            R.ob("C07a-params-in-slice-order", "%s|send_command|loop-source" % cfg, ok,
                 "the parameter loop does not iterate the `args` slice front to back (iterators pulled from: %r)" % (srcs[:2],))
        # send_pixels: (strobe(word))* over the stream items, no DC event
        sp = C.one(F.trait_impl_method(C.IFACE, "send_pixels", self_adt=PIF), "ParallelInterface::send_pixels")
        ex = R.executor(F)
        res = R.run_entry(ex, sp)
        for o in res.outcomes:
            evs = TR.syms_of(TR.flatten_events(o.state.trace, res.loops))
            dc = [repr(s) for s in evs if recv_is(s, ".dc")]
            R.ob("C07a-pixels-no-dc", "%s|send_pixels|dc" % cfg, not dc, "send_pixels touches the data/command line: %s" % dc)
            bad = [repr(s) for s in evs if s.cls == "BUS" and not (isinstance(bus_word(s), (SymV, IntV)) and "next#" in repr(bus_word(s)))]
            R.ob("C07a-pixel-words-from-stream", "%s|send_pixels|source" % cfg, not bad,
                 "a bus value in send_pixels is not an element of the current pixel array: %s" % bad[:2])
        word_step = strobe_dfa(lambda s: True)

        def pstep(q, s):
            if q == "idle" and s.cls == "NEXT":
                return ["idle"]
            if q == "idle":
                r = word_step("w0", s)
                return r
            r = word_step(q, s)
            return ["idle" if x == "w3" else x for x in r]
        for o in res.returns():
            fin = TR.dfa_run(o.state.trace, res.loops, {"idle"}, pstep, o.state.facts, True)
            R.ob("C07a-pixel-strobes", "%s|send_pixels|%s" % (cfg, "ok" if C.result_variant(o.value) == 0 else "err"),
                 (("idle" in fin) if C.result_variant(o.value) == 0 else bool(fin)) and TR.REJECT not in fin,
                 "send_pixels is not a sequence of complete word strobes (DFA states %s)" % sorted(fin))
        # ---------------- (c) repeated pixel (for the word counts per pixel that exist: N = 1, 2, 3)
        srp = C.one(F.trait_impl_method(C.IFACE, "send_repeated_pixel", self_adt=PIF), "ParallelInterface::send_repeated_pixel")
        srp_cone = set()
        for N in (1, 2, 3):
            ex = R.executor(F)
            res = R.run_entry(ex, srp, subst={"N": {"k": "const", "val": N}})
            srp_cone |= set(res.cone)
            tagn = "%s|send_repeated_pixel<N=%d>" % (cfg, N)
            for o in res.panics():
                sp_ = o.info.get("span") or {}
                R.ob("C07d-strobe-count-no-overflow", "%s|%s|%s" % (tagn, o.info.get("what") or o.info.get("kind"), o.info.get("op")), False,
                     "the strobe-count arithmetic can overflow / panic: %s %s on %s, %s (debug panic; release wraps and sends the wrong number of strobes)"
                     % (o.info.get("what"), o.info.get("op"), o.info.get("a"), o.info.get("b")), "%s:%s" % (sp_.get("file"), sp_.get("line")),
                     sample={"obligation": "%s %s" % (o.info.get("what"), o.info.get("op")), "operands": [o.info.get("a"), o.info.get("b")]})
            nfast = 0
            for lid, l in res.loops.items():
                # the loop's integer range, wherever the loop lives (the function itself, or a closure-taking core method
                # analysed through the prelude): the value it had on entry
                rng = [v for k, v in l["entry_values"].items() if isinstance(v, Agg) and (v.name or "").endswith("Range")]
                conts = l["cont"]
                if not rng:
                    # the range's start is the only part the loop changes: its entry value, with the end as `next` sees it
                    st0 = [v for k, v in l["entry_values"].items() if isinstance(v, IntV) and k.split("~")[0].endswith((".start", ".0"))]
                    ends = [e.pointees[0] for c in conts for e in TR.flatten_events(c["trace"], res.loops)
                            if e.kind == "call" and TR.classify(e).cls == "NEXT" and e.pointees and isinstance(e.pointees[0], Agg)
                            and (e.pointees[0].name or "").endswith("Range")]
                    if len(st0) == 1 and ends and all(isinstance(x.fields[1], IntV) and x.fields[1].poly() == ends[0].fields[1].poly() for x in ends):
                        rng = [Agg("adt", "core::ops::range::Range", 0, [st0[0], ends[0].fields[1]], None)]
                words = [[(s.cls + ":" + (s.recv or "")) if s.cls != "NEXT" else "NEXT" for s in TR.syms_of(TR.flatten_events(c["trace"], res.loops))] for c in conts]
                # the fast path is the integer-range loop that strobes without touching the bus (the general path
                # sets the bus in its loop and is covered by the word rules)
                bare = bool(words) and not any(x.startswith("BUS") for w in words for x in w) and any(x.startswith("PIN") for w in words for x in w)
                if bare and not rng:
                    # a counter loop `while c < B { strobe; c += 1 }`: the same trip count as the range c0..B
                    cb = counter_loop_bounds(ex, l)
                    if cb is not None:
                        rng = [Agg("adt", "core::ops::range::Range", 0, [IntV(64, False, p=cb[0]), IntV(64, False, p=cb[1])], None)]
                        words = [["NEXT"] + w for w in words]
                if rng and bare:
                    nfast += 1
                    start, end = rng[0].fields[0].poly(), rng[0].fields[1].poly()
                    cnt = sym_int("count", 32, False)
                    fe = l["entry_state"].facts if l.get("entry_state") is not None else None
                    trips = fe.simplify(end - start) if fe is not None else end - start
                    R.ob("C07c-strobe-count", "%s|range" % tagn, trips == cnt * N - ONE or (start == ONE and end == cnt * N),
                         "the bare-strobe loop runs over %r..%r; with the first full word it must give count*N strobes, i.e. count*%d - 1 passes" % (start, end, N),
                         sample={"N": N, "range": [repr(start), repr(end)]})
                    okw = all(w == ["NEXT", "PIN_LO:*self.wr", "PIN_HI:*self.wr"] for w in words) and bool(words)
                    R.ob("C07c-bare-strobes", "%s|loop-body" % tagn, okw,
                         "each iteration of the fast path must be exactly WR low, WR high with no bus update; got %s" % words[:2])
            R.floor("%s fast-path loops" % tagn, nfast, 1)
            # a zero repeat count produces no bus traffic at all: decided by interpreting the method under count = 0
            # (not by looking for a particular guard in the path conditions)
            ex0 = R.executor(F)
            cnt0 = sym_int("count", 32, False)
            res0 = R.run_entry(ex0, srp, subst={"N": {"k": "const", "val": N}}, assume=[ZERO - cnt0])
            nzero = 0
            for o in res0.outcomes:
                nzero += 1
                evs = [e for e in TR.flatten_events(o.state.trace, res0.loops) if e.kind == "call"]
                R.ob("C07c-zero-count-no-traffic", "%s|count=0|%s" % (tagn, o.kind), o.kind == "return" and not evs,
                     "with a zero repeat count the method %s" % ("drives the bus / strobes: %s" % [repr(TR.classify(e)) for e in evs[:3]] if evs else "does not return normally (%s)" % o.kind),
                     sample={"N": N, "count": 0, "events": len(evs)})
            R.floor("%s zero-count outcomes" % tagn, nzero, 1)
        # the all-words-equal helper: any crate function [T; N] -> Option<T> in the cone of send_repeated_pixel
        import re as _re
        isame = [b for b in F.bodies.values() if b["kind"] == "Fn" and b["id"].startswith(F.crate + "::")
                 and b["body"]["locals"][0]["ty"].get("def") == OPTION and int(b["body"]["arg_count"]) == 1
                 and b["body"]["locals"][1]["ty"].get("k") == "array" and b["id"] in srp_cone]
        for rec in isame:
            cname = [p_["name"] for p_ in rec["generics"]["params"] if p_.get("kind") == "const"]
            for N in (1, 2, 3):
                ex = R.executor(F)
                res = R.run_entry(ex, rec, subst={cname[0]: {"k": "const", "val": N}} if cname else {})
                nsome = 0
                for o in res.outcomes:
                    if o.kind != "return":
                        R.ob("C07c-is-same-sound", "%s|%s|N=%d|%s" % (cfg, rec["name"], N, o.kind), False,
                             "the all-words-equal helper does not return normally: %s" % ({k_: v_ for k_, v_ in o.info.items() if k_ != "stack"},))
                        continue
                    v = o.value
                    if not (isinstance(v, Agg) and v.name == OPTION and v.variant == 1):
                        continue
                    # returned Some(w): w is an element of the array and the path has established, by comparisons that
                    # came out equal, that every element equals it (union of the decided `eq` atoms)
                    nsome += 1
                    w = v.fields[0]
                    cls = {}

                    def find(x):
                        while cls.get(x, x) != x:
                            x = cls[x]
                        return x
                    for a, val in o.state.facts.known.items():
                        m_ = _re.match(r"eq\((<array\[\d+\]: \w+>),(<array\[\d+\]: \w+>)\)$", str(a[1])) if a[0] == "b" else None
                        if m_ and val == 1:
                            cls[find(m_.group(1))] = find(m_.group(2))
                    elems = ["<array[%d]: %s>" % (i, repr(w).split(": ")[-1].rstrip(">")) for i in range(N)]
                    ok = isinstance(w, SymV) and repr(w) in elems and all(find(e) == find(repr(w)) for e in elems)
                    R.ob("C07c-is-same-sound", "%s|%s|N=%d|Some" % (cfg, rec["name"], N), ok,
                         "the all-words-equal helper returns Some(%r) on a path that has not compared every word equal to it "
                         "(comparisons that came out equal on this path: %s)" % (w, sorted(str(a[1]) for a, val in o.state.facts.known.items() if a[0] == "b" and val == 1)))
                R.floor("%s|%s N=%d Some-paths" % (cfg, rec["name"], N), nsome, 1)
