"""C02 - out-of-bounds drawing is discarded: no panic, no write outside the panel window."""
import exec as E
import trace as TR
from poly import Poly, ONE, ZERO, sym_int
from values import Agg, SymV, IntV, BoolV, Ptr
from rules import common as C
from rules import draw as D
from rules import C04

LEVEL = "other"


def pretty_info(info):
    return {k: v for k, v in info.items() if k not in ("stack",)}


def run(R):
    R.trusted = ["rustc nightly MIR construction", "AIM interpreter: every overflow / bounds / unwrap site and every value-changing cast in the "
                 "cone is an obligation", "C09 (I_init)", "embedded-graphics-core: intersection lies inside both operands, contains(), "
                 "bounding_box() = (0,0,size())", "heapless::Vec push / extend_from_slice fail only when full",
                 "stated precondition: rectangles with fewer than 2^32 points", "core::iter adaptors (filter, take, map) are lazy and pure"]
    R.explanation = ("For each of the 8 orientations and both settings of `batch`, draw_iter / fill_contiguous / fill_solid are interpreted "
                     "on arbitrary i32 coordinates. Obligations: (a) sanitiser - no value-changing cast of a caller-supplied coordinate "
                     "(a `lossy_cast` on a path means a coordinate reaches the u16 window arithmetic unchecked: negative, >= width or "
                     ">= 65536 values would wrap onto visible pixels), and every address window emitted ends inside the framebuffer as seen "
                     "under the address mode (for the fill methods and the unbatched draw_iter, decided from the clipping facts); "
                     "(b) no panic: every overflow / bounds / unwrap / expect site in the cone is discharged by type ranges, path facts "
                     "(bounded Farkas) or the named invariants; (c) every Err returned originates from a failing interface operation "
                     "(checked in C12); (d) remainder drawn exactly, for fill_contiguous: C04's colour-stream rule (initial skip = points above / "
                     "left of the visible part, take/skip per row) is re-decided here. Not decided: that the in-bounds remainder of a "
                     "batched draw_iter is drawn exactly as without the out-of-bounds pixels (C03), transports' inner arithmetic (C06/C07).")
    R.parallel("C02", "task", [(cfg, q, m) for cfg in R.configs for (q, m) in D.ORIENTATIONS])


def task(R, item):
    cfg, q, m = item
    F = R.facts(cfg)
    orders = {"CASET": C.ctor_order(R, F, D.CASET, 2, "C02", cfg), "RASET": C.ctor_order(R, F, D.RASET, 2, "C02", cfg)}
    entries = [(C.drawtarget_method(F, n), n) for n in ("draw_iter", "fill_contiguous", "fill_solid")]
    if R.tier == "thorough" or (q, m) in C04.QUICK:
        # "the in-bounds remainder is drawn exactly as if the out-of-bounds pixels had not been supplied", for
        # fill_contiguous: the colour-stream rule of C04 (skip above/left, take/skip per row) is re-decided here
        C04.check_clipped_stream(R, F, cfg, q, m)
    if True:
        otag = "%s|%ddeg%s" % (cfg, q * 90, "+mirror" if m else "")
        for rec, nm in entries:
            assume = []
            if nm in ("fill_contiguous", "fill_solid"):
                # "valid embedded-graphics rectangles with fewer than 2^32 points"
                aw, ah = sym_int("*area.size.width", 32, False), sym_int("*area.size.height", 32, False)
                ax, ay = sym_int("*area.top_left.x", 32, True), sym_int("*area.top_left.y", 32, True)
                assume = [Poly.const((1 << 31) - 1) - ax - aw, Poly.const((1 << 31) - 1) - ay - ah]
            try:
                ex, g, res = D.run_draw(R, F, rec, q, m, assume=assume)
            except E.Undecided as e:
                R.undecided("C02", "%s|%s|undecided" % (otag, nm), str(e))
                continue
            tag = "%s|%s" % (otag, nm)
            if nm in ("fill_contiguous", "fill_solid"):
                # product of the area < 2^32 (stated precondition) cannot be expressed linearly: it is
                # attached to the multiplication obligation below
                pass
            # (a) sanitiser: no value-changing cast on any path
            lossy = {}
            for o in res.outcomes:
                for ev in TR.flatten_events(o.state.trace, res.loops):
                    if ev.kind == "note" and ev.info[0] == "lossy_cast":
                        lossy[(ev.where(), ev.info[1]["value"])] = ev
            for (where, val), ev in sorted(lossy.items()):
                R.ob("C02a-coordinates-sanitised", "%s|cast@%s" % (tag, where), False,
                     "the caller-supplied coordinate %s (range %s) is cast to u16 without a bounds check at %s: out-of-range pixels are "
                     "not discarded but wrap into the address window" % (val, ev.info[1]["range"], where), where,
                     sample={"entry": nm, "cast": where, "value": val})
            if not lossy:
                R.ob("C02a-coordinates-sanitised", "%s|casts" % tag, True, "", sample={"entry": nm, "orientation": [q * 90, m], "lossy_casts": 0})
            # (b) no panic
            pan = {}
            for o in res.panics():
                sp_ = o.info.get("span") or {}
                what = o.info.get("what") or o.info.get("kind")
                key = (sp_.get("file"), sp_.get("line"), what, o.info.get("op"))
                # stated precondition: fewer than 2^32 points
                ops_s = str(o.info.get("a")) + str(o.info.get("b"))
                if what == "overflow" and o.info.get("op") in ("Mul", "Add") and nm == "fill_contiguous" and str(o.info.get("fn") or "").startswith(rec["id"]) \
                        and ("area." in ops_s or "isect" in ops_s) and "self." not in ops_s and "next#" not in ops_s:
                    R.notes.append("%s: stream-index arithmetic over the rectangle discharged by the stated precondition '< 2^32 points' - its formula is decided by C04 (%s:%s)" % (tag, sp_.get("file"), sp_.get("line")))
                    continue
                pan[key] = o
            for key, o in sorted(pan.items(), key=lambda kv: str(kv[0])):
                R.ob("C02b-no-panic", "%s|%s:%s|%s|%s" % (tag, key[0], key[1], key[2], key[3]), False,
                     "can panic for some coordinates: %s" % (pretty_info(o.info),), "%s:%s" % (key[0], key[1]),
                     sample={"entry": nm, "site": "%s:%s" % (key[0], key[1]), "kind": key[2], "op": key[3]})
            R.ob("C02b-obligations-discharged", "%s|discharged" % tag, not pan,
                 "%d panic obligations of %s are not discharged" % (len(pan), nm), sample={"entry": nm, "discharged": res.discharged})
            # (a) windows inside the framebuffer where the coordinates are decidable
            for o in res.returns():
                for a_, kind, (lo, hi) in D.windows(o, res.loops, orders):
                    f = o.state.facts if a_["known"] is None else None
                    if f is None:
                        continue   # inside a loop body: facts of that iteration are not the outcome's
                    lim = g.col_limit() if kind == "CASET" else g.row_limit()
                    hi2 = f.simplify(hi)
                    ok = f.entails_ge0(lim - 1 - hi2) is not None
                    R.ob("C02a-window-inside-framebuffer", "%s|%s" % (tag, kind), ok,
                         "%s end %r is not provably inside the framebuffer as seen under the address mode (limit %r)" % (kind, hi2, lim))
