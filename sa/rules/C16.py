"""C16 - vertical scroll set-up always spans the framebuffer height and never panics."""
import exec as E
import trace as TR
from poly import Poly, ONE, ZERO, ge0, sym_int
from values import Agg, SymV, IntV
from rules import common as C

LEVEL = "proof"
SSA = "mipidsi::dcs::set_scroll_area::SetScrollArea"
SSS = "mipidsi::dcs::set_scroll_start::SetScrollStart"


def ctor_fields(R, F, adt, nargs, cfg):
    """field polynomials of adt::new(p0..) (constructors store their arguments: checked in C18)"""
    ex = R.executor(F)
    new = C.one(F.inherent_method(adt, "new"), adt + "::new")
    args = [IntV(16, False, p=sym_int("p%d" % i, 16, False)) for i in range(nargs)]
    r = C.run_pure(R, ex, new, "C16", "%s|%s::new" % (cfg, adt.split("::")[-1]), args=args)
    if r is None or not isinstance(r[0], Agg):
        return None
    order = []
    for f in r[0].fields:
        a = f.poly().is_atom()
        if a is None:
            return None
        order.append(int(a[1][1:]))
    return order   # field i holds constructor argument order[i]


def run(R):
    R.trusted = ["rustc nightly MIR construction", "AIM interpreter with bounded Farkas entailment for overflow obligations",
                 "C18 (SetScrollArea / SetScrollStart serialise their fields big-endian; write_command sends them)"]
    R.explanation = ("Display::set_vertical_scroll_region is interpreted on symbolic (top, bottom) in u16^2 and a symbolic framebuffer "
                     "height (generic in the model), with write_command kept abstract (its serialisation is C18). Every overflow / "
                     "underflow assertion on the way is an obligation that must be discharged by type ranges or path facts; the single "
                     "command value must be SetScrollArea(t, v, b) with t+v+b == rows as a polynomial identity and t == top, b == bottom "
                     "whenever top+bottom <= rows (compared with the oracle if-then-else polynomials). set_vertical_scroll_offset must "
                     "send SetScrollStart(offset) unchanged.")
    for cfg in R.configs:
        F = R.facts(cfg)
        wc = F.trait_default_method("mipidsi::dcs::InterfaceExt", "write_command")
        order = ctor_fields(R, F, SSA, 3, cfg)
        if order is None or wc is None:
            R.undecided("C16", "%s|anchors" % cfg, "SetScrollArea::new / write_command not analysable")
            continue
        ex = R.executor(F)
        ex.abstract_defs = {wc["id"]}
        rec = C.display_method(F, "set_vertical_scroll_region")
        res = R.run_entry(ex, rec)
        tag = "%s|set_vertical_scroll_region" % cfg
        top = sym_int("top_fixed_area", 16, False)
        bot = sym_int("bottom_fixed_area", 16, False)
        rows = sym_int("<M>::FRAMEBUFFER_SIZE.1", 16, False)
        for o in res.panics():
            sp = o.info.get("span") or {}
            R.ob("C16-no-panic", "%s|panic|%s|%s" % (tag, o.info.get("what") or o.info.get("kind"), o.info.get("op")), False,
                 "can panic (debug) / wrap (release): %s %s with operands %s, %s is not excluded by the path facts %s"
                 % (o.info.get("what"), o.info.get("op"), o.info.get("a"), o.info.get("b"),
                    [("%r" % p, v) for p, v in o.state.facts.decisions()]), "%s:%s" % (sp.get("file"), sp.get("line")),
                 sample={"obligation": "%s %s" % (o.info.get("what"), o.info.get("op")), "operands": [o.info.get("a"), o.info.get("b")]})
        R.counts["%s arithmetic obligations discharged from path facts" % tag] = res.discharged
        fits = ge0(rows - top - bot)
        oracle = [fits * top + (ONE - fits) * rows, fits * (rows - top - bot), fits * bot]
        nsucc = 0
        for o in res.returns():
            for c, syms in C.lin_paths(o):
                w = [s for s in syms if s.cls == "WCMD"]
                word = [repr(s) for s in syms]
                ok = len(syms) == 1 and len(w) == 1 and isinstance(w[0].extra, Agg) and w[0].extra.name == SSA
                R.ob("C16-one-scroll-area-command", "%s|word|%s" % (tag, [s.cls for s in syms]), ok,
                     "must send exactly one SetScrollArea command, got %s" % word)
                if not ok:
                    continue
                nsucc += 1
                f = w[0].extra.fields
                got = [None, None, None]
                for i, fv in enumerate(f):
                    got[order[i]] = o.state.facts.simplify(fv.poly())
                cond = C.outcome_cond(o, only=C.is_input_atom) * c
                t, v, b = got
                R.ob("C16-sum-is-rows", "%s|sum|%r" % (tag, cond), (t + v + b) * cond == rows * cond or C.equal_under(o.state.facts, [c], t + v + b, rows),
                     "top+scroll+bottom = %r differs from the framebuffer height under %r" % (t + v + b, cond),
                     sample={"tfa": repr(t), "vsa": repr(v), "bfa": repr(b), "path": repr(cond)})
                for nm, g, w_ in (("tfa", t, oracle[0]), ("vsa", v, oracle[1]), ("bfa", b, oracle[2])):
                    R.ob("C16-passthrough", "%s|%s|%r" % (tag, nm, cond), g * cond == w_ * cond or C.equal_under(o.state.facts, [c], g, w_),
                         "%s = %r but the property requires %r (pass the fixed areas through when their sum fits)" % (nm, g, w_))
        R.floor("%s success paths" % tag, nsucc, 1)
        # set_vertical_scroll_offset
        order1 = ctor_fields(R, F, SSS, 1, cfg)
        ex = R.executor(F)
        ex.abstract_defs = {wc["id"]}
        res = R.run_entry(ex, C.display_method(F, "set_vertical_scroll_offset"))
        n = 0
        for o in res.outcomes:
            if o.kind == "panic":
                R.ob("C16-no-panic", "%s|scroll_offset|panic" % cfg, False, "set_vertical_scroll_offset can panic: %s" % (o.info,))
                continue
            for c, syms in C.lin_paths(o):
                ok = len(syms) == 1 and syms[0].cls == "WCMD" and isinstance(syms[0].extra, Agg) and syms[0].extra.name == SSS \
                    and syms[0].extra.fields[0].poly() == sym_int("offset", 16, False)
                n += 1
                R.ob("C16-scroll-offset", "%s|set_vertical_scroll_offset" % cfg, ok and order1 == [0],
                     "must send exactly SetScrollStart(offset) with the offset unchanged, got %s" % [repr(s) for s in syms])
        R.floor("%s|scroll_offset paths" % cfg, n, 1)
