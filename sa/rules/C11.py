"""C11 - model initialisation programs the controller consistently with the options."""
import json
import os
import exec as E
import trace as TR
from poly import Poly, ONE, ZERO, unfold_bits
from values import Agg, SymV, IntV, BoolV, vkey
from rules import common as C
from rules.C14 import orientation_bits, inner_byte, SAM, CO, VRO, HRO
from rules.C18 import BPP_BITS

LEVEL = "other"
KIND = "mipidsi::interface::InterfaceKind"
SPEC = os.path.join(os.path.dirname(os.path.dirname(os.path.dirname(os.path.abspath(__file__)))), "spec", "interface_support.json")
PIXEL_MEM = {0x2C, 0x3C}


def kinds_of(F, o):
    """interface kinds (variant names) consistent with the path facts of outcome o"""
    vs = F.adts[KIND]["variants"]
    n = len(vs)
    out = []
    for i, v in enumerate(vs):
        asg = {("var", "<DI>::KIND", j, n): (1 if j == i else 0) for j in range(1, n)}
        ok = True
        for p, val in o.state.facts.decisions():
            c = p.subst(asg).const_value()
            if c is not None and c != val:
                ok = False
                break
        if ok:
            out.append(v["name"])
    return out


def color_bits(F, ty):
    """bits per pixel of an RgbColor type from its MAX_R/G/B associated consts"""
    tot = 0
    for nm in ("MAX_R", "MAX_G", "MAX_B"):
        hit = [c for c in F.raw.get("impl_consts", []) if c["name"] == nm and c["self_ty"].get("def") == ty.get("def")]
        if not hit:
            return None
        tot += bin(int(hit[0]["val"])).count("1")
    return tot


def run(R):
    R.trusted = ["rustc nightly MIR construction", "AIM interpreter", "C14 (address-mode encoding)", "C18 (command serialisation)",
                 "MIPI DCS opcodes 0x10/0x11/0x28/0x29/0x2C/0x3C/0x36/0x3A/0x20/0x21", "DelayNs unit semantics",
                 "spec/interface_support.json: model/interface pairings supported on the pinned tree (baseline for 'stays supported')"]
    R.explanation = ("Each of the 14 `impl Model::init` bodies is interpreted with symbolic options and a symbolic interface kind (helpers and "
                     "the ST7796->ST7789 delegation inlined). Decided per model: the interface-kind gate (unsupported kinds return "
                     "UnsupportedInterface with an empty event word; the supported set contains the frozen baseline); on every success "
                     "path exactly one sleep-out, no sleep-in, display-on with no later display-off, address mode / pixel format / "
                     "inversion sent, no pixel-memory write, constant opcodes, >=120 ms after sleep-out; the address-mode byte sent and "
                     "returned equals the MIPI encoding of the options (polynomial identity over all option values), the inversion opcode "
                     "follows options.invert_colors, the COLMOD interface bits match the colour type's depth; Builder::init stores the "
                     "returned value. Not decided: electrical correctness of vendor-specific raw sequences; external models.")
    baseline = json.load(open(SPEC)) if os.path.exists(SPEC) else None
    for cfg in R.configs:
        F = R.facts(cfg)
        models = C.model_inits(F)
        R.floor("%s|impl Model" % cfg, len(models), 14)
        bgr = C.enum_is(F, CO, "*options.color_order", "Bgr")
        MY, MX, MV = orientation_bits(F, "*options.orientation")
        vb = C.enum_is(F, VRO, "*options.refresh_order.vertical", "BottomToTop")
        hr = C.enum_is(F, HRO, "*options.refresh_order.horizontal", "RightToLeft")
        madctl_oracle = 128 * MY + 64 * MX + 32 * MV + 16 * vb + 8 * bgr + 4 * hr
        inv = C.enum_is(F, "mipidsi::options::ColorInversion", "*options.invert_colors", "Inverted")
        found_support = {}
        for adt, rec in models:
            mname = adt.split("::")[-1]
            ex = R.executor(F)
            res = R.run_entry(ex, rec)
            tag = "%s|%s" % (cfg, mname)
            impl = [i for i in F.impls_by_trait[C.MODEL_TRAIT] if i["self_ty"].get("def") == adt][0]
            cty = [it["ty"] for it in impl["items"] if it["name"] == "ColorFormat"][0]
            bpp = color_bits(F, cty)
            want_dbi = {16: BPP_BITS["Sixteen"], 18: BPP_BITS["Eighteen"], 24: BPP_BITS["TwentyFour"]}.get(bpp)
            supported = set()
            refused = set()
            nsucc = 0
            for o in res.outcomes:
                if o.kind == "panic":
                    R.ob("C11-no-panic", "%s|panic|%s" % (tag, o.info.get("cond")), False, "model init can panic: %s" % ({k: v for k, v in o.info.items() if k != "stack"},))
                    continue
                kinds = kinds_of(F, o)
                e = C.err_payload(o.value)
                evs = TR.syms_of(TR.flatten_events(o.state.trace, res.loops))
                unsupported = isinstance(e, Agg) and C.variant_name(F, e) == "InvalidConfiguration" and \
                    isinstance(e.fields[0], Agg) and C.variant_name(F, e.fields[0]) == "UnsupportedInterface"
                if unsupported:
                    refused |= set(kinds)
                    R.ob("C11a-refuse-before-commands", "%s|refuse|%s" % (tag, kinds), not evs,
                         "UnsupportedInterface is returned after commands were already sent: %s" % [repr(s) for s in evs[:4]])
                    continue
                if C.result_variant(o.value) == 0:
                    supported |= set(kinds)
                    for c, syms in C.lin_paths(o):
                        nsucc += 1
                        word = [repr(s) for s in syms]
                        cmds = [s for s in syms if s.cls == "CMD"]
                        nonconst = [repr(s) for s in cmds if not s.ops]
                        R.ob("C11b-constant-opcodes", "%s|opcodes" % tag, not nonconst, "non-constant opcodes: %s" % nonconst)

                        def idx(op):
                            return [i for i, s in enumerate(syms) if s.cls == "CMD" and s.ops and op in s.ops]
                        so, si = idx(0x11), idx(0x10)
                        R.ob("C11b-awake", "%s|sleep" % tag, len(so) == 1 and not si,
                             "init must send sleep-out exactly once and never sleep-in (sleep-out at %s, sleep-in at %s)" % (so, si))
                        on, off = idx(0x29), idx(0x28)
                        R.ob("C11b-display-on", "%s|display-on" % tag, bool(on) and (not off or max(off) < max(on)),
                             "init must leave the display switched on (display-on at %s, display-off at %s)" % (on, off))
                        pm = [repr(s) for s in syms if s.cls in ("PIX", "REP") or (s.cls == "CMD" and s.ops and (s.ops & PIXEL_MEM))]
                        R.ob("C11b-no-pixel-memory", "%s|pixel-memory" % tag, not pm, "init writes pixel memory: %s" % pm)
                        after = sum((s.ns or 0) for s in syms[so[-1] + 1:] if s.cls == "DELAY") if so else 0
                        R.ob("C11b-120ms-after-sleep-out", "%s|delay" % tag, after >= 120_000_000,
                             "init returns %d ns after sleep-out (need >= 120 ms)" % after,
                             sample={"model": mname, "delay_after_sleep_out_ns": after})
                        # (c) values
                        mad = [s for s in cmds if s.ops == {0x36}]
                        ok = bool(mad) and all(s.params is not None and len(s.params) == 1 and unfold_bits(s.params[0].poly()) == madctl_oracle for s in mad)
                        R.ob("C11c-address-mode-sent", "%s|madctl-sent" % tag, ok,
                             "the address mode sent is %s, the MIPI encoding of the options is %r" % ([repr(s.params) for s in mad], madctl_oracle),
                             sample={"model": mname, "madctl": repr(madctl_oracle)})
                        rv = o.value.fields[0]
                        got = unfold_bits(inner_byte(ex, rv).poly()) if isinstance(rv, (Agg, SymV)) else None
                        R.ob("C11c-address-mode-returned", "%s|madctl-returned" % tag, got == madctl_oracle,
                             "init returns address mode %r but sent / should have encoded %r" % (got, madctl_oracle))
                        ivs = [s for s in cmds if s.ops and (s.ops <= {0x20, 0x21})]
                        ok = bool(ivs) and all(s.ev.args[1].poly() == 0x20 + inv and s.params == [] for s in ivs)
                        R.ob("C11c-inversion", "%s|inversion" % tag, ok,
                             "colour inversion command must be 0x20 + [invert_colors == Inverted]; got %s" % [repr(s.ev.args[1]) for s in ivs])
                        pf = [s for s in cmds if s.ops == {0x3A}]
                        ok = bool(pf) and want_dbi is not None and all(
                            s.params is not None and len(s.params) == 1 and s.params[0].const() is not None and (s.params[0].const() & 7) == want_dbi for s in pf)
                        R.ob("C11c-pixel-format", "%s|colmod" % tag, ok,
                             "COLMOD announces %s but the model's colour type %s has %s bits per pixel (interface bits must be %s)"
                             % ([repr(s.params) for s in pf], cty.get("s"), bpp, want_dbi),
                             sample={"model": mname, "colmod": [repr(s.params) for s in pf], "bpp": bpp})
                else:
                    # interface error paths: checked by C12; they must not claim UnsupportedInterface
                    pass
            R.floor("%s success paths" % tag, nsucc, 1)
            found_support[mname] = sorted(supported)
            allk = set(v["name"] for v in F.adts[KIND]["variants"])
            R.ob("C11a-gate-total", "%s|gate" % tag, supported | refused == allk and not (supported & refused),
                 "interface kinds neither served nor refused, or both: supported=%s refused=%s" % (sorted(supported), sorted(refused)),
                 sample={"model": mname, "supported": sorted(supported), "refused": sorted(refused)})
            if baseline is not None and mname in baseline:
                R.ob("C11a-stays-supported", "%s|baseline" % tag, set(baseline[mname]) <= supported,
                     "pairings supported on the pinned tree are now refused: %s" % sorted(set(baseline[mname]) - supported))
            elif baseline is not None:
                R.notes.append("unverified-new model %s (no baseline row)" % mname)
        if os.environ.get("VERIF_WRITE_BASELINE") == "1" and cfg == R.configs[0]:
            with open(SPEC, "w") as f:
                json.dump(found_support, f, indent=1, sort_keys=True)
        if baseline is None:
            R.undecided("C11a", "%s|baseline-missing" % cfg, "spec/interface_support.json is missing")
        # the kind each built-in interface reports is the one its wiring has (the gates above key on it)
        want_kind = {"mipidsi::interface::spi::SpiInterface": "Serial4Line",
                     "mipidsi::interface::parallel::Generic8BitBus": "Parallel8Bit",
                     "mipidsi::interface::parallel::Generic16BitBus": "Parallel16Bit"}
        nk = 0
        for tr in (C.IFACE, TR.BUS):
            for impl in F.impls_by_trait.get(tr, []):
                st_ = impl["self_ty"]
                if impl["id"].startswith("mipidsi::_mock"):
                    continue
                kid = [it["id"] for it in impl["items"] if it["name"] == "KIND"]
                if not kid or kid[0] not in F.consts:
                    continue
                exk = R.executor(F)
                try:
                    v = exk.eval_const_item(F.consts[kid[0]], {})
                except E.Undecided as e_:
                    v = None
                nk += 1
                if st_.get("k") == "adt" and st_["def"] in want_kind:
                    got = C.variant_name(F, v) if isinstance(v, Agg) else None
                    R.ob("C11a-interface-kind-constant", "%s|KIND|%s" % (cfg, st_["def"].split("::")[-1]), got == want_kind[st_["def"]],
                         "%s reports interface kind %s, its wiring is %s" % (st_["def"].split("::")[-1], got, want_kind[st_["def"]]),
                         sample={"interface": st_["def"].split("::")[-1], "kind": got})
                else:
                    # forwarding impls (ParallelInterface -> BUS::KIND, &mut T -> T::KIND): must be the inner type's constant
                    inner = repr(v)
                    ok = isinstance(v, SymV) and v.name.endswith("::KIND") and ("BUS" in v.name or "<T>" in v.name)
                    R.ob("C11a-interface-kind-constant", "%s|KIND|%s" % (cfg, st_.get("s", "?")[:40]), ok,
                         "%s::KIND evaluates to %s instead of forwarding the wrapped type's kind" % (st_.get("s"), inner))
        R.floor("%s|KIND constants" % cfg, nk, 5)
        # Builder::init stores exactly the returned address mode
        ex = R.executor(F)
        res = R.run_entry(ex, C.builder_init(F))
        for o in res.returns():
            if C.result_variant(o.value) != 0:
                continue
            d = o.value.fields[0]
            mad = C.get_field(ex, o.state, d, C.DISPLAY, "madctl")
            inits = [e for e in TR.flatten_events(o.state.trace) if e.kind == "call" and e.trait == TR.MODEL and e.method == "init"]
            ok = len(inits) == 1 and isinstance(mad, SymV) and mad.name == inits[0].ret.name + "@Ok.0"
            R.ob("C11c-builder-stores-returned-madctl", "%s|Builder::init|madctl" % cfg, ok,
                 "Builder::init stores %r as the cached address mode instead of the value returned by Model::init" % (mad,))
