"""C08 - every pixel burst is framed by a well-formed window that it does not overrun."""
import exec as E
import trace as TR
from poly import Poly, ONE, ZERO, sym_int
from values import Agg, SymV, IntV, BoolV, Ptr
from rules import common as C
from rules import draw as D

LEVEL = "other"


def same_on_path(f, a, b):
    """a == b as polynomials, or after rewriting both by the equalities among this path's own facts (Gaussian
    elimination, Facts.eq_elimination): inside `if intersection == area` a count written over `area.size`
    is the count over the intersection. Only equalities that hold on the path are used, so a wrong count
    is never accepted."""
    if a == b:
        return True
    try:
        m, _ = f.eq_elimination()
        return f.simplify((a - b).subst(m)).const_value() == 0
    except Exception:
        return False


def run(R):
    R.trusted = ["rustc nightly MIR construction", "AIM interpreter", "C18 (both address commands carry four big-endian bytes; write_command "
                 "sends exactly the command)", "C05 (each InterfacePixelFormat method makes exactly one Interface pixel call)", "C09 (I_init)",
                 "embedded-graphics-core: bottom_right = top_left + size - 1 for non-empty rectangles; intersection inside both operands",
                 "core::iter::Take yields at most n items"]
    R.explanation = ("(a) For every drawing entry point (set_pixel, set_pixels, draw_iter, fill_contiguous, fill_solid; clear is the default), "
                     "all 8 orientations and both batch settings, the event word at the Interface layer is accepted by the DFA "
                     "( CASET RASET RAMWR (PIX|REP) )* - loops handled as fixpoints - with error paths as prefixes and no other command. "
                     "(c) for the fill methods and set_pixel: start <= end in both address commands and the end lies inside the framebuffer "
                     "as seen under the address mode. (d) fill_solid repeats its colour exactly (ex-sx+1)*(ey-sy+1) times and "
                     "fill_contiguous wraps the colour stream in a take(n) with n equal to the window area (polynomial identities). "
                     "Not decided: for batched draw_iter that start <= end and that a block's colour count equals rows x row length "
                     "(stateful accumulators, C03); set_pixels is documented as unchecked.")
    R.parallel("C08", "task", [(cfg, q, m) for cfg in R.configs for (q, m) in D.ORIENTATIONS])


def task(R, item):
    cfg, q, m = item
    F = R.facts(cfg)
    orders = {"CASET": C.ctor_order(R, F, D.CASET, 2, "C08", cfg), "RASET": C.ctor_order(R, F, D.RASET, 2, "C08", cfg)}
    entries = [(C.display_method(F, "set_pixel"), "set_pixel"), (C.display_method(F, "set_pixels"), "set_pixels"),
               (C.drawtarget_method(F, "draw_iter"), "draw_iter"), (C.drawtarget_method(F, "fill_contiguous"), "fill_contiguous"),
               (C.drawtarget_method(F, "fill_solid"), "fill_solid")]
    if True:
        otag = "%s|%ddeg%s" % (cfg, q * 90, "+mirror" if m else "")
        g = C.Geo(q, m)
        for rec, nm in entries:
            assume = []
            if nm == "set_pixel":
                assume = [g.lw - 1 - sym_int("x", 16, False), g.lh - 1 - sym_int("y", 16, False)]
            if nm == "set_pixels":
                sx, sy, ex_, ey = [sym_int(n, 16, False) for n in ("sx", "sy", "ex", "ey")]
                assume = [ex_ - sx, ey - sy, g.lw - 1 - ex_, g.lh - 1 - ey]
            try:
                # the accumulator invariants of the batching pipeline do not depend on the orientation: the quick tier
                # derives them (and checks the groups of the batched draw_iter) for two orientations, the thorough tier for all
                groups = nm == "draw_iter" and (not F.batch or R.tier == "thorough" or (q, m) in ((0, False), (1, True)))
                ex, g, res = D.run_draw(R, F, rec, q, m, assume=assume, struct_inv=(groups and F.batch))
            except E.Undecided as e:
                R.undecided("C08", "%s|%s|undecided" % (otag, nm), str(e))
                continue
            tag = "%s|%s" % (otag, nm)
            nsucc = 0
            for o in res.outcomes:
                if o.kind == "panic":
                    continue       # C02 / C01
                fin = TR.dfa_run(o.state.trace, res.loops, {0}, D.frame_step, o.state.facts, True)
                if C.result_variant(o.value) == 0 or (isinstance(o.value, SymV) and not fin):
                    pass
                is_ok = C.result_variant(o.value) == 0
                is_tail = isinstance(o.value, SymV)      # result of the last interface call returned as-is
                if is_ok or is_tail:
                    nsucc += 1
                    R.ob("C08a-framing", "%s|complete" % tag, 0 in fin and TR.REJECT not in fin,
                         "a successful %s does not consist of complete groups CASET RASET RAMWR pixels (DFA states %s)" % (nm, sorted(fin)),
                         sample={"entry": nm, "orientation": [q * 90, m], "dfa_final": sorted(fin)})
                else:
                    R.ob("C08a-framing", "%s|error-prefix|%r" % (tag, o.value), bool(fin) and TR.REJECT not in fin,
                         "an error path of %s is not a prefix of the framing language" % nm)
            R.floor("%s paths" % tag, nsucc, 1)
            # (c) / (d) for draw_iter: every group emitted inside its loop, on the facts of that iteration (loop
            # invariants included: for the batched pipeline the relational invariants of the row / block accumulators)
            if nm == "draw_iter" and groups:
                ngroups = 0
                seen_groups = set()
                for o in res.returns():
                    cur = {}
                    for a_ in TR.annotate(o.state.trace, res.loops):
                        s_ = TR.classify(a_["ev"])
                        st_ = a_.get("state")
                        if st_ is None:
                            continue
                        if s_.cls == "WCMD" and D.wsym(s_) in ("CASET", "RASET") and isinstance(s_.extra, Agg):
                            cur.setdefault(id(st_), {})[D.wsym(s_)] = C.ctor_args(s_.extra, orders[D.wsym(s_)])
                        elif s_.cls == "PIX" and id(st_) in cur and len(cur[id(st_)]) == 2:
                            if id(st_) in seen_groups:
                                continue
                            seen_groups.add(id(st_))
                            ngroups += 1
                            fw = st_.facts
                            gtag = "%s|group%d" % (tag, ngroups)
                            (c0, c1), (p0, p1) = [tuple(fw.simplify(v) for v in cur[id(st_)][k]) for k in ("CASET", "RASET")]
                            for nmw, w0s, w1s, lim in (("columns", c0, c1, g.col_limit()), ("pages", p0, p1, g.row_limit())):
                                R.ob("C08c-start-le-end", "%s|%s" % (gtag, nmw), fw.entails_ge0(w1s - w0s, use_eq=True) is not None,
                                     "%s start %r may exceed end %r in a window of draw_iter" % (nmw, w0s, w1s))
                                R.ob("C08c-end-inside-framebuffer", "%s|%s" % (gtag, nmw), fw.entails_ge0(lim - 1 - w1s, use_eq=True) is not None,
                                     "%s end %r not provably inside the framebuffer" % (nmw, w1s))
                            it = a_["ev"].args[1] if len(a_["ev"].args) > 1 else None
                            area = (c1 - c0 + 1) * (p1 - p0 + 1)
                            cnt = None
                            if isinstance(it, Agg) and it.name == D.HVEC and it.fields and isinstance(it.fields[0], IntV):
                                cnt = fw.simplify(it.fields[0].poly())          # a heapless::Vec of colours: its length
                            elif isinstance(it, Agg) and it.name == "core::iter::once":
                                cnt = ONE
                            elif isinstance(it, Agg) and it.kind == "array":
                                cnt = Poly.const(len(it.fields))           # an array of colours handed over by value
                            elif isinstance(it, Agg) and it.name in ("core::array::into_iter", "core::iter::into_iter") and it.fields \
                                    and isinstance(it.fields[0], Agg) and it.fields[0].kind == "array":
                                cnt = Poly.const(len(it.fields[0].fields))
                            if cnt is None:
                                R.undecided("C08", "%s|burst-shape" % gtag, "colour burst of draw_iter has unexpected shape %r" % (it,))
                                continue
                            ok = fw.entails_ge0(area - cnt, use_eq=True) is not None
                            R.ob("C08d-pixel-count-within-window", "%s|count<=area" % gtag, ok,
                                 "draw_iter sends %r colours into a window of %r pixels: not provably <= (the write pointer may wrap)" % (cnt, area),
                                 sample={"entry": nm, "count": repr(cnt), "window_area": repr(area)})
                            R.ob("C08d-pixel-count-equals-window", "%s|count>=area" % gtag, fw.entails_ge0(cnt - area, use_eq=True) is not None,
                                 "draw_iter sends %r colours into a window of %r pixels: not provably the whole window" % (cnt, area))
                R.floor("%s window groups inside the loop" % tag, ngroups, 1)
            # (c) / (d)
            if nm in ("fill_solid", "fill_contiguous", "set_pixel"):
                branch = 0
                for o in res.returns():
                    ws = D.windows(o, res.loops, orders)
                    if len(ws) < 2:
                        continue
                    if not any(TR.classify(a_["ev"]).cls in ("PIX", "REP") for a_ in TR.annotate(o.state.trace, res.loops)):
                        continue
                    f = o.state.facts
                    branch += 1
                    tag = "%s|%s|branch%d" % (otag, nm, branch)
                    for (aw_, kw, (w0, w1)) in ws:
                        fw = aw_["state"].facts if aw_.get("state") is not None else o.state.facts
                        w0s, w1s = fw.simplify(w0), fw.simplify(w1)
                        lim = g.col_limit() if kw == "CASET" else g.row_limit()
                        nmw = "columns" if kw == "CASET" else "pages"
                        R.ob("C08c-start-le-end", "%s|%s" % (tag, nmw), fw.entails_ge0(w1s - w0s) is not None, "%s start %r may exceed end %r" % (nmw, w0s, w1s))
                        R.ob("C08c-end-inside-framebuffer", "%s|%s" % (tag, nmw), fw.entails_ge0(lim - 1 - w1s) is not None,
                             "%s end %r not provably inside the framebuffer" % (nmw, w1s))
                    if len(ws) != 2 or any(w[0].get("state") is not None for w in ws):
                        continue       # several windows / windows inside a loop: the count clause below is per single window
                    (a0, k0, (c0, c1)), (a1, k1, (p0, p1)) = ws[0], ws[1]
                    c0, c1, p0, p1 = [f.simplify(v) for v in (c0, c1, p0, p1)]
                    area = (c1 - c0 + 1) * (p1 - p0 + 1)
                    evs = [TR.classify(a_["ev"]) for a_ in TR.annotate(o.state.trace, res.loops)]
                    if nm == "fill_solid":
                        reps = [s for s in evs if s.cls == "REP"]
                        if reps:
                            cnt = f.simplify(reps[0].ev.args[2].poly())
                            R.ob("C08d-pixel-count-equals-window", "%s|repeat-count" % tag, same_on_path(f, cnt, area),
                                 "fill_solid repeats the colour %r times, the window holds %r pixels" % (cnt, area),
                                 sample={"entry": nm, "count": repr(cnt), "window_area": repr(area)})
                    if nm == "fill_contiguous" or (nm == "fill_solid" and not [s for s in evs if s.cls == "REP"]):
                        # (a solid fill written as a stream of equal colours is held to the same count clause)
                        pix = [s for s in evs if s.cls == "PIX"]
                        if pix:
                            it = pix[0].ev.args[1]
                            okk = isinstance(it, Agg) and it.name in ("core::iter::take",) and isinstance(it.fields[1], IntV)
                            n = f.simplify(it.fields[1].poly()) if okk else None
                            why = None
                            if not okk and isinstance(it, Agg) and it.name == "core::iter::take_while":
                                # 16-bit pointer variant: a counting predicate; how many items it admits is decided
                                # from the predicate's own body (step +1 of a captured counter, one comparison)
                                n, why = C.take_while_admits(R, F, it)
                                n = f.simplify(n) if n is not None else None
                                okk = n is not None
                            R.ob("C08d-pixel-count-equals-window", "%s|take-limit" % tag, okk and same_on_path(f, n, area),
                                 "the fill limits the colour stream to %r pixels (iterator %s%s), the window holds %r"
                                 % (n, getattr(it, "name", it), "; " + why if why else "", area), sample={"entry": nm, "take": repr(n), "window_area": repr(area)})
