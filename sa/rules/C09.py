"""C09 - Builder::init accepts exactly the windows that fit and rejects before touching hardware."""
import trace as TR
import exec as E
from poly import Poly, ONE, ZERO, ge0, sym_int
from values import Agg, SymV
from rules import common as C

LEVEL = "proof"
CONFIGS_NOTE = "Builder::init is generic in DI, MODEL, RST: one proof covers every model / transport / framebuffer size"


def run(R):
    R.trusted = ["rustc nightly MIR construction", "AIM interpreter (sa/exec.py) and polynomial normal form (sa/poly.py)",
                 "core::convert::From<u16> for u32 is value preserving"]
    R.explanation = ("Builder::init is interpreted once on symbolic (w,h,ox,oy) in u16^4 and symbolic FRAMEBUFFER_SIZE (W,H); "
                     "the sum of the path conditions of all outcomes returning InvalidDisplaySize / InvalidDisplayOffset / reaching "
                     "the reset stage must equal, as canonical polynomials over comparison atoms, the oracle built from the "
                     "property text; rejected paths must have an empty event word; no arithmetic of the validation may wrap. "
                     + CONFIGS_NOTE)
    for cfg in R.configs:
        F = R.facts(cfg)
        ex = R.executor(F)
        rec = C.builder_init(F)
        res = R.run_entry(ex, rec)
        tag = "%s|Builder::init" % cfg
        w = sym_int("self.options.display_size.0", 16, False)
        h = sym_int("self.options.display_size.1", 16, False)
        ox = sym_int("self.options.display_offset.0", 16, False)
        oy = sym_int("self.options.display_offset.1", 16, False)
        W = sym_int("<MODEL>::FRAMEBUFFER_SIZE.0", 16, False)
        H = sym_int("<MODEL>::FRAMEBUFFER_SIZE.1", 16, False)
        size_ok = ge0(w - 1) * ge0(h - 1) * ge0(W - w) * ge0(H - h)
        off_ok = ge0(W - w - ox) * ge0(H - h - oy)
        oracle = {"InvalidDisplaySize": ONE - size_ok, "InvalidDisplayOffset": size_ok * (ONE - off_ok), "accepted": size_ok * off_ok}
        got = {"InvalidDisplaySize": ZERO, "InvalidDisplayOffset": ZERO}
        accepted = set()
        ce = "mipidsi::builder::ConfigurationError"
        n_paths = 0
        for o in res.outcomes:
            if o.kind == "panic":
                R.ob("C09c-no-wrap", "%s|panic|%s|%s" % (tag, o.info.get("what"), o.info.get("cond")), False,
                     "the validation arithmetic can overflow / panic: %s" % (o.info,), "%s:%s" % (o.info["span"]["file"], o.info["span"]["line"]) if o.info.get("span") else None)
                continue
            n_paths += 1
            cond = C.outcome_cond(o, only=lambda a: C.is_input_atom(a) and not (a[0] == "var" and a[1] == "self.rst"))
            v = o.value
            cls = None
            e = C.err_payload(v)
            if isinstance(e, Agg) and C.variant_name(F, e) == "InvalidConfiguration":
                inner = e.fields[0]
                cls = C.variant_name(F, inner)
            evs = [s for s in TR.syms_of(TR.flatten_events(o.state.trace, res.loops))]
            if cls in ("InvalidDisplaySize", "InvalidDisplayOffset"):
                got[cls] = got[cls] + cond
                R.ob("C09a-reject-before-hardware", "%s|%s|%r" % (tag, cls, cond), len(evs) == 0,
                     "rejected with %s after touching hardware: %s" % (cls, evs),
                     sample={"outcome": cls, "path_condition": repr(cond), "events": [repr(x) for x in evs]})
            else:
                accepted.add(cond)
                R.ob("C09a-accepted-reaches-reset", "%s|accepted|%s" % (tag, [repr(x) for x in evs[:1]]), len(evs) >= 1,
                     "an accepted configuration returns without performing the reset stage")
        for cls in ("InvalidDisplaySize", "InvalidDisplayOffset"):
            R.ob("C09b-decision-equals-oracle", "%s|%s" % (tag, cls), got[cls] == oracle[cls] or C.equivalent_conditions(got[cls], oracle[cls]),
                 "init returns %s exactly when  %r  but the property requires  %r" % (cls, got[cls], oracle[cls]),
                 sample={"class": cls, "code": repr(got[cls]), "oracle": repr(oracle[cls])})
        acc_sum = ZERO
        for a_ in accepted:
            acc_sum = acc_sum + a_
        R.ob("C09b-decision-equals-oracle", "%s|accepted" % tag, accepted == {oracle["accepted"]} or C.equivalent_conditions(acc_sum, oracle["accepted"]),
             "init proceeds to the reset stage under  %s  but the property requires  %r" % ([repr(a) for a in accepted], oracle["accepted"]),
             sample={"class": "accepted", "code": [repr(a) for a in accepted], "oracle": repr(oracle["accepted"])})
        R.ob("C09c-no-wrap", "%s|overflow-asserts-discharged" % tag, res.discharged >= 2,
             "expected the two u32 additions of the offset check to be present and discharged by type ranges (found %d)" % res.discharged)
        R.floor("%s paths" % tag, n_paths, 7)
        # (d) the configuration that init validates is the one the caller asked for: every Builder setter stores its
        # argument(s) in the like-named option and leaves everything else alone; new() starts from the full framebuffer
        setters = {"display_size": ["width", "height"], "display_offset": ["x", "y"], "orientation": ["orientation"],
                   "color_order": ["color_order"], "invert_colors": ["color_inversion"], "refresh_order": ["refresh_order"]}
        opt_fields = [f["name"] for f in F.adts[C.OPTS]["variants"][0]["fields"]]
        for sname in setters:
            recs = F.inherent_method(C.BUILDER, sname)
            if len(recs) != 1:
                R.notes.append("builder setter %s not found (%d)" % (sname, len(recs)))
                continue
            ex = R.executor(F)
            r = C.run_pure(R, ex, recs[0], "C09d", "%s|Builder::%s" % (cfg, sname))
            if r is None:
                continue
            b = r[0]
            okb = isinstance(b, Agg) and b.name == C.BUILDER
            changed = []
            target_ok = False
            if okb:
                bf = [f["name"] for f in F.adts[C.BUILDER]["variants"][0]["fields"]]
                for i, fn in enumerate(bf):
                    if fn == "options":
                        o_ = b.fields[i]
                        if isinstance(o_, SymV):
                            o_ = ex.expand_sym(o_)
                        for j, on in enumerate(opt_fields):
                            cur = o_.fields[j]
                            ini = ex.mk_sym(F.adts[C.OPTS]["variants"][0]["fields"][j]["ty"], "self.options." + on)
                            same = repr(cur) == repr(ini) or (isinstance(ini, SymV) and repr(cur) == repr(ex.expand_sym(ini) or ini))
                            if not same:
                                changed.append(on)
                                if on == sname:
                                    # value must be built from the parameters, in order
                                    params = [d["name"] for d in sorted([d for d in recs[0]["body"]["debug"] if d.get("arg") is not None and not d["place"]["proj"]],
                                                                         key=lambda d: d["place"]["local"])][1:]
                                    txt = repr(cur)
                                    pos = [txt.find(pn) for pn in params]
                                    target_ok = all(p_ >= 0 for p_ in pos) and pos == sorted(pos) and "self.options" not in txt
                    else:
                        ini = "<self.%s:" % fn
                        if not repr(b.fields[i]).startswith(ini):
                            changed.append(fn)
            R.ob("C09d-builder-setter", "%s|Builder::%s" % (cfg, sname), okb and changed == [sname] and target_ok,
                 "Builder::%s must store exactly its argument(s) in options.%s and change nothing else; changed %s, value ok: %s"
                 % (sname, sname, changed, target_ok), sample={"setter": sname, "changed": changed})
        recs = F.inherent_method(C.BUILDER, "new")
        if len(recs) == 1:
            ex = R.executor(F)
            r = C.run_pure(R, ex, recs[0], "C09d", "%s|Builder::new" % cfg)
            if r is not None and isinstance(r[0], Agg):
                bf = [f["name"] for f in F.adts[C.BUILDER]["variants"][0]["fields"]]
                o_ = r[0].fields[bf.index("options")]
                d_ = {n: o_.fields[j] for j, n in enumerate(opt_fields)} if isinstance(o_, Agg) else {}
                ok = bool(d_) and repr(d_["display_size"]) == "(u16(<MODEL>::FRAMEBUFFER_SIZE.0), u16(<MODEL>::FRAMEBUFFER_SIZE.1))" \
                    and repr(d_["display_offset"]) == "(u16(0), u16(0))" and repr(r[0].fields[bf.index("rst")]) == "Option::v0()"
                R.ob("C09d-builder-default", "%s|Builder::new" % cfg, ok,
                     "Builder::new must start from the whole framebuffer at offset (0,0) without a reset pin; got options %r" % (o_,))

