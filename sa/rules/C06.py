"""C06 - SPI transport delivers exactly the bytes to send, in order, and terminates."""
import exec as E
import trace as TR
from poly import Poly, ONE, ZERO, sym_int
from values import Agg, SymV, IntV, BoolV, Term, Ptr, vkey
from rules import common as C

LEVEL = "other"
SPIIF = "mipidsi::interface::spi::SpiInterface"


def run(R):
    R.trusted = ["rustc nightly MIR construction", "AIM interpreter (loops by havoc-to-fixpoint, never unrolled)",
                 "embedded-hal SpiDevice::write / OutputPin contracts", "finite iterators (chunks, caller streams) end",
                 "stated precondition of the property: the staging buffer holds at least one pixel (len >= N) and is shorter than 4 GiB"]
    R.explanation = ("Decided on the polymorphic SpiInterface bodies: (a) send_command's event word is DC low, write([command]), DC high, "
                     "write(args) with error paths as prefixes; (b) the pixel methods never touch DC and emit only SPI writes; (d) every "
                     "slice written by the pixel methods has a length that depends on what was staged in this round (never the whole "
                     "buffer: stale padding), necessary condition; (e) every loop makes progress: iterator-driven loops consume a "
                     "finite iterator, counter loops must decrease their counter by an amount entailed >= 1 under the stated "
                     "precondition (this is what catches a zero repeat count never terminating). Error discipline is C12. Not decided: "
                     "that exactly count*N bytes are written and that chunk k carries pixel k (array-content / division arithmetic).")
    for cfg in R.configs:
        F = R.facts(cfg)
        # ---------------- (a) send_command
        sc = C.one(F.trait_impl_method(C.IFACE, "send_command", self_adt=SPIIF), "SpiInterface::send_command")
        ex = R.executor(F)
        res = R.run_entry(ex, sc)
        nsucc = 0
        for o in res.outcomes:
            if o.kind == "panic":
                R.ob("C06a-no-panic", "%s|send_command|panic|%s" % (cfg, o.info.get("cond")), False, "send_command can panic: %s" % ({k: v for k, v in o.info.items() if k != "stack"},))
                continue
            for c, syms in C.lin_paths(o):
                shape = [s.cls for s in syms]
                full = ["PIN_LO", "SPI_WRITE", "PIN_HI", "SPI_WRITE"]
                ok = shape == full[:len(shape)] and (C.result_variant(o.value) == 1 or shape == full)
                ok = ok and all((s.recv or "").endswith(".dc") for s in syms if s.cls.startswith("PIN")) \
                    and all((s.recv or "").endswith(".spi") for s in syms if s.cls == "SPI_WRITE")
                writes = [s for s in syms if s.cls == "SPI_WRITE"]
                if ok and len(writes) >= 1:
                    p0 = writes[0].ev.pointees[1]
                    ok = isinstance(p0, Agg) and len(p0.fields) == 1 and isinstance(p0.fields[0], IntV) and repr(p0.fields[0].poly()) == "command"
                if ok and len(writes) == 2:
                    a1 = writes[1].ev.args[1]
                    ok = isinstance(a1, Ptr) and a1.root == ("O", "*args") and a1.path == ()
                if C.result_variant(o.value) == 0:
                    nsucc += 1
                R.ob("C06a-command-word", "%s|send_command|%s" % (cfg, shape), ok,
                     "send_command must be: DC low, write([command]), DC high, write(args) (a prefix on failure); got %s" % [repr(s) for s in syms],
                     sample={"fn": "send_command", "word": [repr(s) for s in syms]})
        R.floor("%s|send_command success paths" % cfg, nsucc, 1)
        # ---------------- pixel methods
        for mname in ("send_pixels", "send_repeated_pixel"):
            rec = C.one(F.trait_impl_method(C.IFACE, mname, self_adt=SPIIF), "SpiInterface::" + mname)
            ex = R.executor(F)
            ln = sym_int("len(*self.buffer)", F.pointer_bits, False)
            nn = sym_int("const N", F.pointer_bits, False)
            res = R.run_entry(ex, rec, assume=[ln - nn, nn - 1, Poly.const((1 << 32) - 1) - ln])
            tag = "%s|%s" % (cfg, mname)
            allev = []
            for o in res.outcomes:
                allev.extend(TR.flatten_events(o.state.trace, res.loops))
            syms = [TR.classify(e) for e in allev if e.kind == "call"]
            dc = [repr(s) for s in syms if s.cls.startswith("PIN")]
            other = sorted(set(s.cls for s in syms) - {"SPI_WRITE", "NEXT"})
            R.ob("C06b-pixels-no-dc", tag + "|dc", not dc, "%s touches a pin (data/command must stay high during pixel data): %s" % (mname, dc[:2]))
            R.ob("C06b-only-spi-writes", tag + "|events", not other, "%s performs other hardware operations: %s" % (mname, other))
            writes = [s for s in syms if s.cls == "SPI_WRITE"]
            R.floor(tag + " SPI write sites", len(set(TR.where(s.ev) for s in writes)), 1 if mname == "send_pixels" else 2)
            for s in writes:
                a1 = s.ev.args[1]
                meta = a1.meta.poly() if isinstance(a1, Ptr) and a1.meta is not None else None
                whole = meta is None or meta == ln or not (isinstance(a1, Ptr) and a1.path and a1.path[-1][0] in ("s", "sx"))
                dep = meta is not None and any(("loop:" in repr(a) or "count" in repr(a) or "cast" in repr(a)) for a in meta.atoms())
                R.ob("C06d-written-length-is-staged-length", "%s|write@%s" % (tag, TR.where(s.ev)), (not whole) and dep,
                     "the slice written at %s has length %r: it must be the part of the buffer staged in this round, not the whole "
                     "buffer (stale bytes would be sent)" % (TR.where(s.ev), meta), TR.where(s.ev),
                     sample={"fn": mname, "write": TR.where(s.ev), "length": repr(meta)})
            # (e) loop progress
            R.floor(tag + " loops", len(res.loops), 2)
            for lid, l in sorted(res.loops.items()):
                where = "%s:%s" % (l["span"]["file"], l["span"]["line"]) if l.get("span") else lid
                conts = l["cont"]
                iter_driven = bool(conts) and all(
                    any(isinstance(it, E.LoopMark) for it in c["trace"]) or
                    any(TR.classify(e).cls == "NEXT" for e in TR.flatten_events(c["trace"], res.loops) if e.kind == "call") for c in conts)
                if iter_driven:
                    R.ob("C06e-loop-progress", "%s|loop@%s|iterator" % (tag, where), True, "", where,
                         sample={"loop": where, "witness": "consumes a finite iterator on every iteration"})
                    continue
                # counter loop: some unsigned loop-carried local must strictly decrease on every iteration
                ok_all = bool(conts)
                detail = []
                for c in conts:
                    stc = c["state"]
                    found = False
                    for name, v0 in l["entry_values"].items():
                        if not isinstance(v0, IntV) or v0.signed:
                            continue
                        # value of the same local at the back edge vs at the loop head (havoced symbol)
                        root_path = [rp for rp in stc.mem if False]
                        head = None
                        st_entry = l["entry_state"]
                        for (r, pth), nm in [((r, ()), ex.describe_loc(r, ())) for r in st_entry.mem if r[0] == "L"]:
                            if nm == name:
                                head = st_entry.mem[r]
                                end = stc.mem.get(r)
                                if isinstance(head, IntV) and isinstance(end, IntV):
                                    delta = head.poly() - end.poly()     # decrease per iteration
                                    if stc.facts.entails_ge0(delta - 1):
                                        found = True
                                    else:
                                        detail.append("%s decreases by %r per iteration, which the path facts do not bound below by 1"
                                                      % (name, stc.facts.simplify(delta)))
                    ok_all = ok_all and found
                R.ob("C06e-loop-progress", "%s|loop@%s|counter" % (tag, where), ok_all,
                     "the loop at %s may not terminate: no loop-carried counter provably decreases (%s)" % (where, "; ".join(detail[:3])), where,
                     sample={"loop": where, "witness": "counter decreases by >= 1" if ok_all else "none", "detail": detail[:2]})
            # (c20) no SPI write inside a nested (depth-2) loop
            for lid, l in res.loops.items():
                nested_parent = [p for p, pl in res.loops.items() if any(isinstance(it, E.LoopMark) and it.loop_id == lid for c in pl["cont"] for it in c["trace"])]
                if nested_parent:
                    inner_writes = [TR.where(e) for c in l["cont"] for e in TR.flatten_events(c["trace"], res.loops)
                                    if e.kind == "call" and TR.classify(e).cls == "SPI_WRITE"]
                    R.ob("C06-no-write-per-pixel", "%s|inner-loop@%s" % (tag, lid.split("@")[1].split("/")[0]), not inner_writes,
                         "an SPI write sits in the per-pixel staging loop (%s): one transaction per pixel" % inner_writes[:2])
