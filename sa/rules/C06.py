"""C06 - SPI transport delivers exactly the bytes to send, in order, and terminates."""
import exec as E
import trace as TR
from poly import Poly, ONE, ZERO, sym_int
from values import Agg, SymV, IntV, BoolV, Term, Ptr, vkey
from rules import common as C

LEVEL = "other"
SPIIF = "mipidsi::interface::spi::SpiInterface"


def is_pixel_pull(ev):
    """a `next` on the caller's pixel stream: it yields arrays of words"""
    if ev.kind != "call" or TR.classify(ev).cls != "NEXT" or not isinstance(ev.ret, SymV):
        return False
    t = ev.ret.ty
    return t.get("k") == "adt" and t.get("def") == "core::option::Option" and t["args"] and t["args"][0].get("k") == "array"


def pulls_some(ex, facts, anns):
    """(number of pixel pulls in the annotated events that yield Some on this path, undecided ones)"""
    k, und = 0, []
    for a_ in anns:
        ev = a_["ev"]
        if not is_pixel_pull(ev):
            continue
        f2 = facts.copy()
        if not all(f2.assume(c, 1) for c in a_["conds"]):
            continue                        # this alternative is not on the path
        v = f2.simplify(ex.variant_cond(ev.ret, 1)).const_value()
        if v == 1:
            k += 1
        elif v is None:
            und.append(TR.where(ev))
    return k, und


def check_no_pixel_dropped(R, F, ex, res, tag, nn):
    """conservation in send_pixels: on every path round the staging loop, and on every path that leaves it for the
    SPI write, N x (pixels taken from the caller's stream) == bytes added to the staged length + bytes written.
    A pixel taken and not staged (e.g. an iterator adaptor that pulls from the stream before it finds the buffer
    full) breaks it."""
    writes = [e for o in res.outcomes for e in TR.flatten_events(o.state.trace, res.loops) if e.kind == "call" and TR.classify(e).cls == "SPI_WRITE"]
    metas = [e.args[1].meta.poly() for e in writes if isinstance(e.args[1], Ptr) and e.args[1].meta is not None]
    matoms = set()
    for m_ in metas:
        matoms |= set(m_.atoms())
    nstaging = 0
    for lid, l in sorted(res.loops.items()):
        est = l.get("entry_state")
        root_i = None
        if est is not None:
            for r, v in est.mem.items():
                if isinstance(v, IntV) and v.poly().is_atom() in matoms and v.poly().is_atom() is not None:
                    root_i = r
        for ci, c in enumerate(l["cont"]):
            anns = TR.annotate(c["trace"], None)
            k, und = pulls_some(ex, c["state"].facts, anns)
            if und:
                R.undecided("C06", "%s|%s|pull-undecided" % (tag, lid.split("@")[1].split("/")[0]), "whether the stream yielded a pixel at %s is not decided on a loop path" % und[:2])
                continue
            if k == 0:
                continue
            nstaging += 1
            key = "%s|loop@%s|path%d" % (tag, lid.split("@")[1].split("/")[0], ci)
            if root_i is None:
                R.undecided("C06", key + "|staged-length", "a loop path takes %d pixel(s) from the stream but the staged-length counter "
                            "(the local that bounds the SPI write) is not carried by this loop" % k)
                continue
            f = c["state"].facts
            i0, i1 = est.mem[root_i], c["state"].mem.get(root_i)
            written = ZERO
            for a_ in anns:
                if TR.classify(a_["ev"]).cls == "SPI_WRITE" and isinstance(a_["ev"].args[1], Ptr) and a_["ev"].args[1].meta is not None:
                    cc = ONE
                    for c_ in a_["conds"]:
                        cc = cc * c_          # a write inside a merged alternative counts only where it is taken
                    written = written + cc * a_["ev"].args[1].meta.poly()
            ok = isinstance(i1, IntV)
            if ok:
                d = f.simplify(i1.poly() - i0.poly() + written - nn * k)
                ok = f.entails_ge0(d, use_eq=True) is not None and f.entails_ge0(-d, use_eq=True) is not None
            R.ob("C06c-pulled-equals-staged", key, ok,
                 "a path round the staging loop takes %d pixel(s) from the stream but stages %r bytes (N = const N)"
                 % (k, f.simplify(i1.poly() - i0.poly() + written) if isinstance(i1, IntV) else None),
                 sample={"loop": lid.split("::")[-1], "pixels_taken": k, "staged_delta": repr(f.simplify(i1.poly() - i0.poly())) if isinstance(i1, IntV) else None})
    R.floor(tag + " staging-loop paths that take a pixel", nstaging, 1)
    # paths that leave a loop and reach the write (or the end) : nothing may be taken from the stream on the way
    # (error outcomes are prefixes - C12 - and may well end between taking a pixel and staging it)
    traces = [(o.state.trace, o.state.facts, "outcome") for o in res.outcomes if o.kind != "panic" and C.result_variant(o.value) == 0]
    for lid, l in res.loops.items():
        for c in l["cont"]:
            traces.append((c["trace"], c["state"].facts, "loop@" + lid.split("@")[1].split("/")[0]))
    nseg = 0
    seen = set()
    for tr_, facts, what in traces:
        anns = TR.annotate(tr_, None)
        # position of loop marks among the top-level items: events after the last LoopMark up to the first SPI write
        idx = [i for i, it in enumerate(tr_) if isinstance(it, E.LoopMark)]
        if not idx:
            continue
        seg = tr_[idx[-1] + 1:]
        sanns = []
        for a_ in TR.annotate(seg, None):
            if TR.classify(a_["ev"]).cls == "SPI_WRITE":
                break
            sanns.append(a_)
        k, und = pulls_some(ex, facts, sanns)
        nseg += 1
        key = "%s|exit-of-%s|%s" % (tag, tr_[idx[-1]].loop_id.split("@")[1].split("/")[0], what)
        if key in seen and k == 0 and not und:
            continue
        seen.add(key)
        R.ob("C06c-no-pixel-taken-and-dropped", key, k == 0 and not und,
             "on a path that leaves the staging loop %d pixel(s) are taken from the caller's stream (%s) and not staged before the "
             "write: they are lost" % (k + len(und), [TR.where(a_["ev"]) for a_ in sanns if is_pixel_pull(a_["ev"])][:2]))
    R.floor(tag + " loop-exit segments", nseg, 1)


def carried_iterator(est, ev):
    """is the iterator this `next` pulls from one that lives across iterations of the loop (it existed, initialised,
    when the loop was entered)? An iterator created afresh inside the body can be pulled from for ever."""
    if not ev.args or not isinstance(ev.args[0], Ptr):
        return False
    ex, l = est
    root = ev.args[0].root
    if root[0] == "O":
        return True                       # an object behind a reference that came from outside
    nm = ex.describe_loc(root, ())
    vals = [v for k, v in l["entry_values"].items() if k.split("~")[0] == nm or k.split("~")[0].startswith(nm + ".")]
    return bool(vals) and all(repr(v) != "undef" for v in vals)


def can_reenter(ex, est, cst, f):
    """the first branch decision of the iteration that only looks at loop-head values (for a `while` loop: its test),
    with the head values replaced by the values at the back edge: False if the facts refute it"""
    head = {}
    for r, v in est.mem.items():
        for leaf_h, leaf_e in zip_leaves(v, cst.mem.get(r)):
            head[leaf_h] = leaf_e
    for pdec, val in cst.facts.decisions():
        ats = pdec.atoms()
        hs = [a for a in ats if "loop:" in repr(a)]
        if not hs:
            continue
        if not all(a in head for a in hs) or len(hs) != len(ats):
            return True           # the first test on loop state involves more than head values: no conclusion
        sub = {a: head[a] for a in hs}
        q = f.simplify(pdec.subst(sub))
        cv = q.const_value()
        return not (cv is not None and cv != val)
    return True


def zip_leaves(vh, ve, depth=0):
    """pairs (atom of a havoced scalar at the loop head, polynomial of the same location at the back edge)"""
    if depth > 4 or ve is None:
        return
    if isinstance(vh, IntV) and isinstance(ve, IntV):
        a = vh.poly().is_atom()
        if a is not None:
            yield a, ve.poly()
    elif isinstance(vh, BoolV) and isinstance(ve, BoolV):
        a = vh.p.is_atom()
        if a is not None:
            yield a, ve.p
    elif isinstance(vh, Agg) and isinstance(ve, Agg) and len(vh.fields) == len(ve.fields):
        for x, y in zip(vh.fields, ve.fields):
            yield from zip_leaves(x, y, depth + 1)


def write_len(ev):
    a1 = ev.args[1]
    return a1.meta.poly() if isinstance(a1, Ptr) and a1.meta is not None else None


def check_repeat_total(R, F, ex, res, tag, nn):
    """send_repeated_pixel writes exactly count x N bytes, by telescoping over the write loop: some loop-carried
    counter c starts as the `count` argument; every path round the loop writes N x (c at the head - c at the back
    edge) bytes; after the loop the remaining writes total N x (final c). Error paths are prefixes (C12)."""
    count = sym_int("count", 32, False)
    wloops = [(lid, l) for lid, l in sorted(res.loops.items())
              if any(TR.classify(a_["ev"]).cls == "SPI_WRITE" for c in l["cont"] for a_ in TR.annotate(c["trace"], None))]
    if len(wloops) != 1:
        R.undecided("C06", "%s|repeat-loop-anchor" % tag, "expected exactly one loop that writes to the SPI device, found %d" % len(wloops))
        return
    lid, l = wloops[0]
    est = l["entry_state"]
    lname = lid.split("@")[1].split("/")[0]
    # candidate counters: loop-carried unsigned integers
    def leaves(v, path=(), depth=0):
        # loop-carried unsigned integers, also inside a (nested) struct or tuple local (`plan.remaining`)
        if isinstance(v, IntV):
            if not v.signed and v.poly().is_atom() is not None and "loop:" in repr(v.poly()):
                yield path, v
        elif isinstance(v, Agg) and v.kind in ("adt", "tuple") and depth < 3 and not (v.name or "").startswith("core::"):
            for i, f_ in enumerate(v.fields):
                yield from leaves(f_, path + (("f", i, None),), depth + 1)

    def at(mem, loc):
        v = mem.get(loc[0])
        for step in loc[1]:
            if not isinstance(v, Agg) or step[1] >= len(v.fields):
                return None
            v = v.fields[step[1]]
        return v
    cands = [(r, pth) for r, v in est.mem.items() for pth, _v in leaves(v)]
    good = []
    for r in cands:
        ok = bool(l["cont"])
        for c in l["cont"]:
            f = c["state"].facts
            end = at(c["state"].mem, r)
            if not isinstance(end, IntV):
                ok = False
                break
            written = ZERO
            for a_ in TR.annotate(c["trace"], None):
                if TR.classify(a_["ev"]).cls == "SPI_WRITE":
                    m_ = write_len(a_["ev"])
                    written = written + (m_ if m_ is not None else sym_int("unknown-length", 64, False))
            d = f.simplify(written - nn * (at(est.mem, r).poly() - end.poly()))
            if not (f.entails_ge0(d, use_eq=True) is not None and f.entails_ge0(-d, use_eq=True) is not None):
                ok = False
                break
        if ok:
            good.append(r)
    R.ob("C06c-repeat-loop-writes-what-it-counts", "%s|loop@%s" % (tag, lname), len(good) >= 1,
         "no loop-carried counter c of the write loop satisfies 'bytes written on a path round the loop = N x decrease of c'",
         sample={"loop": lname, "counters": [ex.describe_loc(r[0], r[1]) for r in good]})
    if not good:
        return
    r = good[0]
    ev0 = l["entry_values"]
    start = [v for k, v in ev0.items() if k.split("~")[0] == ex.describe_loc(r[0], r[1]) and isinstance(v, IntV)]
    R.ob("C06c-repeat-counter-starts-at-count", "%s|loop@%s" % (tag, lname), any(v.poly() == count for v in start),
         "the counter of the write loop starts at %s, not at the `count` argument" % [repr(v) for v in start])
    nok = 0
    for o in res.outcomes:
        if o.kind == "panic" or C.result_variant(o.value) != 0:
            continue
        nok += 1
        f = o.state.facts
        idx = [i for i, it in enumerate(o.state.trace) if isinstance(it, E.LoopMark) and it.loop_id == lid]
        after = o.state.trace[idx[-1] + 1:] if idx else o.state.trace
        before = o.state.trace[:idx[0]] if idx else []
        tot = ZERO
        und = False
        for a_ in TR.annotate(after, None):
            if TR.classify(a_["ev"]).cls == "SPI_WRITE":
                m_ = write_len(a_["ev"])
                f2 = f.copy()
                if not all(f2.assume(c_, 1) for c_ in a_["conds"]):
                    continue
                if m_ is None:
                    und = True
                else:
                    tot = tot + m_
        pre = [a_ for a_ in TR.annotate(before, None) if TR.classify(a_["ev"]).cls == "SPI_WRITE"]
        fin = at(o.state.mem, r) if idx else None
        want = nn * (fin.poly() if isinstance(fin, IntV) else count)
        d = f.simplify(tot - want)
        ok = not und and not pre and f.entails_ge0(d, use_eq=True) is not None and f.entails_ge0(-d, use_eq=True) is not None
        R.ob("C06c-repeat-remainder", "%s|ok-path%d" % (tag, nok), ok,
             "after the write loop %r bytes are written, the counter says %r remain (writes before the loop: %d)" % (f.simplify(tot), f.simplify(want), len(pre)),
             sample={"remaining_bytes_written": repr(f.simplify(tot)), "counter_times_n": repr(f.simplify(want))})
    R.floor(tag + " success paths", nok, 2)


def explicit_panic_refuted(o):
    """an explicit panic (assert!, debug_assert!) sits behind a branch; the interpreter prunes a branch only by cheap
    reasoning. Here the last decision that led to the panic is re-examined with everything the check has: is the
    opposite of that decision entailed by the facts before it (linear entailment with case split, then one product
    step - the same means that discharge the implicit bounds checks)?"""
    from poly import atom_pred_poly, is_bool_atom
    from state import Facts
    log = o.state.facts.log
    idx = [i for i, e in enumerate(log) if e[0] == "assume"]
    if not idx:
        return False
    last = log[idx[-1]]
    p, val = last[1], last[2]
    f0 = Facts.replay(log[:idx[-1]])
    p = f0.simplify(p)
    a = p.is_atom()
    neg = False
    if a is None:
        a = (ONE - p).is_atom()
        neg = True
    if a is None or a[0] not in ("ge", "eq") or not is_bool_atom(a):
        return False
    truth = (1 - val) if neg else val          # the value the atom has on the panicking path
    inner = f0.simplify(atom_pred_poly(a))

    def ent(q):
        return f0.entails_ge0_split(q, 3, 2, use_eq=True) is not None or f0.entails_ge0_prod(q)
    if a[0] == "ge":
        # the path claims inner >= 0 (truth 1) or inner < 0 (truth 0): refuted if the opposite is entailed
        return ent(-inner - ONE) if truth == 1 else ent(inner)
    if truth == 0:
        return ent(inner) and ent(-inner)
    return ent(inner - ONE) or ent(-inner - ONE)


def run(R):
    R.trusted = ["rustc nightly MIR construction", "AIM interpreter (loops by havoc-to-fixpoint, never unrolled)",
                 "embedded-hal SpiDevice::write / OutputPin contracts", "finite iterators (chunks, caller streams) end",
                 "stated precondition of the property: the staging buffer holds at least one pixel (len >= N) and is shorter than 4 GiB"]
    R.explanation = ("Decided on the polymorphic SpiInterface bodies: (a) send_command's event word is DC low, write([command]), DC high, "
                     "write(args) with error paths as prefixes; (b) the pixel methods never touch DC and emit only SPI writes; (c) "
                     "conservation: round the staging loop of send_pixels N x (pixels pulled) = staged bytes + written bytes and no pixel "
                     "is pulled on a path that leaves for the write; send_repeated_pixel's counter starts at count, every round writes "
                     "N x (what it subtracts) and the remainder write is N x (what is left), so the total is count*N; (d) every slice "
                     "written by the pixel methods has a length that depends on what was staged in this round (never the whole buffer); "
                     "(e) every loop makes progress: a pass that goes round again consumes an item of a loop-carried finite iterator or "
                     "writes >= 1 staged byte, counter loops decrease by an amount entailed >= 1 under the stated precondition (this "
                     "caught a zero repeat count never terminating); no explicit panic is reachable and no bounds / overflow / unwrap "
                     "panic remains unentailed in the pixel methods when the buffer holds at least one pixel (index bounds through one "
                     "product step: len - N*k >= 0 from k <= len / N). Error discipline is C12. Not decided: that chunk k carries pixel k "
                     "(array-content reasoning).")
    for cfg in R.configs:
        F = R.facts(cfg)
        # ---------------- (a) send_command
        sc = C.one(F.trait_impl_method(C.IFACE, "send_command", self_adt=SPIIF), "SpiInterface::send_command")
        ex = R.executor(F)
        res = R.run_entry(ex, sc)
        nsucc = 0
        for o in res.outcomes:
            if o.kind == "panic":
                R.ob("C06a-no-panic", "%s|send_command|panic|%s" % (cfg, o.info.get("cond")), False, "send_command can panic: %s" % ({k: v for k, v in o.info.items() if k != "stack"},))
                continue
            for c, syms in C.lin_paths(o):
                shape = [s.cls for s in syms]
                full = ["PIN_LO", "SPI_WRITE", "PIN_HI", "SPI_WRITE"]
                ok = shape == full[:len(shape)] and (C.result_variant(o.value) == 1 or shape == full)
                if not ok and C.result_variant(o.value) == 0 and shape == full[:3]:
                    # the write of the parameters may be left out exactly when there are none (an empty write delivers nothing)
                    la = sym_int("len(args)", F.pointer_bits, False)
                    f_ = o.state.facts.copy()
                    ok = all(f_.assume(c_, 1) for c_ in ([c] if not isinstance(c, (list, tuple)) else c)) and f_.entails_ge0(-la) is not None
                ok = ok and all((s.recv or "").endswith(".dc") for s in syms if s.cls.startswith("PIN")) \
                    and all((s.recv or "").endswith(".spi") for s in syms if s.cls == "SPI_WRITE")
                writes = [s for s in syms if s.cls == "SPI_WRITE"]
                if ok and len(writes) >= 1:
                    p0 = writes[0].ev.pointees[1]
                    ok = isinstance(p0, Agg) and len(p0.fields) == 1 and isinstance(p0.fields[0], IntV) and repr(p0.fields[0].poly()) == "command"
                if ok and len(writes) == 2:
                    a1 = writes[1].ev.args[1]
                    ok = isinstance(a1, Ptr) and a1.root == ("O", "*args") and a1.path == ()
                if C.result_variant(o.value) == 0:
                    nsucc += 1
                R.ob("C06a-command-word", "%s|send_command|%s" % (cfg, shape), ok,
                     "send_command must be: DC low, write([command]), DC high, write(args) (a prefix on failure); got %s" % [repr(s) for s in syms],
                     sample={"fn": "send_command", "word": [repr(s) for s in syms]})
        R.floor("%s|send_command success paths" % cfg, nsucc, 1)
        # ---------------- pixel methods
        for mname in ("send_pixels", "send_repeated_pixel"):
            rec = C.one(F.trait_impl_method(C.IFACE, mname, self_adt=SPIIF), "SpiInterface::" + mname)
            ex = R.executor(F)
            ex.keep_dead_entry_locals = True        # the repeat counter is read at the return
            ex.product_step = True                  # bounds of the form N * count <= len need one product step
            ex.conserved_coeffs = [sym_int("const N", F.pointer_bits, False), -sym_int("const N", F.pointer_bits, False), Poly.const(-1)]
            ln = sym_int("len(*self.buffer)", F.pointer_bits, False)
            nn = sym_int("const N", F.pointer_bits, False)
            res = R.run_entry(ex, rec, assume=[ln - nn, nn - 1, Poly.const((1 << 32) - 1) - ln])
            tag = "%s|%s" % (cfg, mname)
            allev = []
            for o in res.outcomes:
                allev.extend(TR.flatten_events(o.state.trace, res.loops))
            syms = [TR.classify(e) for e in allev if e.kind == "call"]
            dc = [repr(s) for s in syms if s.cls.startswith("PIN")]
            other = sorted(set(s.cls for s in syms) - {"SPI_WRITE", "NEXT"})
            R.ob("C06b-pixels-no-dc", tag + "|dc", not dc, "%s touches a pin (data/command must stay high during pixel data): %s" % (mname, dc[:2]))
            R.ob("C06b-only-spi-writes", tag + "|events", not other, "%s performs other hardware operations: %s" % (mname, other))
            writes = [s for s in syms if s.cls == "SPI_WRITE"]
            # distinct executed write calls (not source lines: a shared helper has one line for all of them)
            R.floor(tag + " SPI write sites", len(set(getattr(s.ev.ret, "name", id(s.ev)) for s in writes)), 1 if mname == "send_pixels" else 2)
            for s in writes:
                a1 = s.ev.args[1]
                meta = a1.meta.poly() if isinstance(a1, Ptr) and a1.meta is not None else None
                whole = meta is None or meta == ln or not (isinstance(a1, Ptr) and a1.path and a1.path[-1][0] in ("s", "sx"))
                dep = meta is not None and any(("loop:" in repr(a) or "count" in repr(a) or "cast" in repr(a)) for a in meta.atoms())
                R.ob("C06d-written-length-is-staged-length", "%s|write@%s" % (tag, TR.where(s.ev)), (not whole) and dep,
                     "the slice written at %s has length %r: it must be the part of the buffer staged in this round, not the whole "
                     "buffer (stale bytes would be sent)" % (TR.where(s.ev), meta), TR.where(s.ev),
                     sample={"fn": mname, "write": TR.where(s.ev), "length": repr(meta)})
            # an explicit panic (assert! / panic! / unreachable!) that the stated precondition "the buffer holds at least one
            # pixel" does not exclude: the call would abort instead of delivering the bytes
            for o in res.panics():
                if o.info.get("kind") != "panic_call":
                    sp_ = o.info.get("span") or {}
                    R.ob("C06-pixels-no-panic", "%s|%s|%s|%s" % (tag, o.info.get("what") or o.info.get("kind"), o.info.get("op"), o.info.get("callee") or ""), False,
                         "%s is not free of panics at %s:%s (%s %s; the condition that must hold, %s, does not follow from the path for every "
                         "buffer length >= N, count and stream): the call would abort instead of delivering the bytes" % (mname, sp_.get("file"), sp_.get("line"), o.info.get("what") or o.info.get("kind"),
                                                                          o.info.get("op") or "", str(o.info.get("cond"))[:160]),
                         "%s:%s" % (sp_.get("file"), sp_.get("line")))
                if o.info.get("kind") == "panic_call" and explicit_panic_refuted(o):
                    continue        # (a debug_assert! of something the path facts entail: unreachable)
                if o.info.get("kind") == "panic_call":
                    sp_ = o.info.get("span") or {}
                    R.ob("C06-no-explicit-panic", "%s|panic@%s" % (tag, o.info.get("callee")), False,
                         "%s can reach an explicit panic at %s:%s although the buffer holds at least one pixel (path: %s)"
                         % (mname, sp_.get("file"), sp_.get("line"), [("%r" % p_)[:80] for p_, _ in o.state.facts.decisions()][-3:]),
                         "%s:%s" % (sp_.get("file"), sp_.get("line")))
            if mname == "send_pixels":
                check_no_pixel_dropped(R, F, ex, res, tag, nn)
            else:
                check_repeat_total(R, F, ex, res, tag, nn)
            # (e) loop progress
            R.floor(tag + " loops", len(res.loops), 1)
            for lid, l in sorted(res.loops.items()):
                where = "%s:%s" % (l["span"]["file"], l["span"]["line"]) if l.get("span") else lid
                conts = l["cont"]
                iter_driven = bool(conts) and all(
                    any(isinstance(it, E.LoopMark) for it in c["trace"]) or
                    any(TR.classify(e).cls == "NEXT" for e in TR.flatten_events(c["trace"], res.loops) if e.kind == "call") for c in conts)
                if iter_driven:
                    # every path round the loop must use something up: an item of a finite iterator (a `next` that
                    # yields Some on that path), or - for a loop that writes - at least one staged byte in the write
                    # (a pull that yields None consumes nothing: looping on after the stream has ended would never stop)
                    bad = []
                    est = l.get("entry_state")
                    for ci, c in enumerate(conts):
                        anns = TR.annotate(c["trace"], None)
                        # the results of the `next` calls on the path that are still open: decide them case by case
                        pulls = [a_["ev"] for a_ in anns if TR.classify(a_["ev"]).cls == "NEXT" and isinstance(a_["ev"].ret, SymV)]
                        open_ = [e for e in pulls if c["state"].facts.simplify(ex.variant_cond(e.ret, 1)).const_value() is None][:4]
                        for mask in range(1 << len(open_)):
                            f = c["state"].facts.copy()
                            if not all(f.assume(ex.variant_cond(e.ret, 1), (mask >> k_) & 1) for k_, e in enumerate(open_)):
                                continue
                            # does this case go round again? the test made first in the iteration (on the loop-head values),
                            # re-evaluated on the values at the back edge, must not be refuted
                            if est is not None and not can_reenter(ex, est, c["state"], f):
                                continue
                            wit = None
                            for a_ in anns:
                                ev = a_["ev"]
                                if not all(f.simplify(c_).const_value() == 1 for c_ in a_["conds"]):
                                    continue
                                cls = TR.classify(ev).cls
                                if cls == "NEXT" and isinstance(ev.ret, SymV) and f.simplify(ex.variant_cond(ev.ret, 1)).const_value() == 1 \
                                        and carried_iterator((ex, l), ev):
                                    wit = "an item is taken on every pass"
                                elif cls == "SPI_WRITE":
                                    m_ = write_len(ev)
                                    if m_ is not None and f.entails_ge0(f.simplify(m_) - 1, use_eq=True) is not None:
                                        wit = "every pass writes at least one staged byte"
                            if wit is None:
                                bad.append((ci, mask))
                    R.ob("C06e-loop-progress", "%s|loop@%s|iterator" % (tag, where), not bad,
                         "a path round the loop at %s neither takes an item from an iterator nor writes a staged byte: it can repeat for ever "
                         "(e.g. after the pixel stream has ended)" % where, where,
                         sample={"loop": where, "witness": "every pass that goes round again consumes an item or writes >= 1 staged byte" if not bad else "none"})
                    continue
                # counter loop: some unsigned loop-carried local must strictly decrease on every iteration
                ok_all = bool(conts)
                detail = []
                for c in conts:
                    stc = c["state"]
                    found = False
                    st_entry = l["entry_state"]

                    def int_locs(v, path=(), depth=0):
                        if isinstance(v, IntV):
                            yield path, v
                        elif isinstance(v, Agg) and v.kind in ("adt", "tuple") and depth < 3 and not (v.name or "").startswith("core::"):
                            for i_, f_ in enumerate(v.fields):
                                yield from int_locs(f_, path + (("f", i_, None),), depth + 1)

                    def value_at(mem, r_, pth_):
                        v_ = mem.get(r_)
                        for step in pth_:
                            if not isinstance(v_, Agg) or step[1] >= len(v_.fields):
                                return None
                            v_ = v_.fields[step[1]]
                        return v_
                    # an unsigned loop-carried integer (a local, or a field of a struct / tuple local): its value at the
                    # back edge vs at the loop head (havoced symbol)
                    for r in [r_ for r_ in st_entry.mem if r_[0] == "L"]:
                        for pth, head in int_locs(st_entry.mem[r]):
                            if head.signed or "loop:" not in repr(head.poly()):
                                continue
                            name = ex.describe_loc(r, pth)
                            end = value_at(stc.mem, r, pth)
                            if isinstance(end, IntV):
                                delta = head.poly() - end.poly()     # decrease per iteration
                                if stc.facts.entails_ge0(delta - 1):
                                    found = True
                                elif stc.facts.simplify(delta).const_value() != 0:
                                    detail.append("%s decreases by %r per iteration, which the path facts do not bound below by 1"
                                                  % (name, stc.facts.simplify(delta)))
                    ok_all = ok_all and found
                R.ob("C06e-loop-progress", "%s|loop@%s|counter" % (tag, where), ok_all,
                     "the loop at %s may not terminate: no loop-carried counter provably decreases (%s)" % (where, "; ".join(detail[:3])), where,
                     sample={"loop": where, "witness": "counter decreases by >= 1" if ok_all else "none", "detail": detail[:2]})
            # (c20) no SPI write inside a nested (depth-2) loop
            for lid, l in res.loops.items():
                nested_parent = [p for p, pl in res.loops.items() if any(isinstance(it, E.LoopMark) and it.loop_id == lid for c in pl["cont"] for it in c["trace"])]
                if nested_parent:
                    inner_writes = [TR.where(e) for c in l["cont"] for e in TR.flatten_events(c["trace"], res.loops)
                                    if e.kind == "call" and TR.classify(e).cls == "SPI_WRITE"]
                    R.ob("C06-no-write-per-pixel", "%s|inner-loop@%s" % (tag, lid.split("@")[1].split("/")[0]), not inner_writes,
                         "an SPI write sits in the per-pixel staging loop (%s): one transaction per pixel" % inner_writes[:2])
