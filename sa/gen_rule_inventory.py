#!/usr/bin/env python3
"""regenerate spec/rule_inventory.json (rule -> number of instances, per property and tier) by running every check on the
tree VERIF_REPO points at. Run on a tree whose checks pass: the inventory is the reference against which a later tree is
checked for rules that silently lost all their instances."""
import json, os, subprocess, sys, tempfile
HERE = os.path.dirname(os.path.abspath(__file__))
VERIF = os.path.dirname(HERE) if os.path.basename(HERE) == "sa" else "/verif"
ids = [c["property_id"] for c in json.load(open(os.path.join(VERIF, "MANIFEST.json")))["checks"]]
tmp = tempfile.mkdtemp()
log = os.path.join(tmp, "inv.jsonl")
env = dict(os.environ, VERIF_WRITE_INVENTORY=log, VERIF_EVIDENCE_DIR=os.path.join(tmp, "ev"))
procs = []
for tier in ("quick", "thorough"):
    for i in ids:
        procs.append(subprocess.Popen([sys.executable, os.path.join(HERE, "check.py"), i, "--tier", tier], env=env, cwd=VERIF,
                                      stdout=subprocess.DEVNULL, stderr=subprocess.DEVNULL))
        if len(procs) >= 8:
            procs.pop(0).wait()
for p in procs:
    p.wait()
out = {}
for l in open(log):
    d = json.loads(l)
    out.setdefault(d["prop"], {})[d["tier"]] = {k: v for k, v in sorted(d["rules"].items()) if k not in ("ENGINE", "FLOOR")}
json.dump(out, open(os.path.join(VERIF, "spec", "rule_inventory.json"), "w"), indent=0, sort_keys=True)
print({k: {t: len(r) for t, r in v.items()} for k, v in sorted(out.items())})
