"""Abstract values of the interpreter (immutable)."""
from poly import Poly, ZERO, ONE, bits_of_const, bits_to_poly, is_bool_atom
import tys as T


class IntV:
    """integer of a machine type. p: exact integer value as a Poly; bv: per-bit 0/1 polys."""
    __slots__ = ("bits", "signed", "p", "bv", "hint")

    def __init__(self, bits, signed, p=None, bv=None, hint=None):
        self.bits = bits
        self.signed = signed
        self.p = p
        self.bv = bv
        self.hint = hint      # (lo, hi) known from the structure of a merge (hull of the branches)

    def range0(self):
        """range from the polynomial's atoms alone, intersected with the structural hint"""
        lo, hi = self.poly().range()
        if self.hint is not None:
            hlo, hhi = self.hint
            lo = hlo if lo is None else max(lo, hlo)
            hi = hhi if hi is None else min(hi, hhi)
        return lo, hi

    def poly(self):
        if self.p is None:
            self.p = bits_to_poly(self.bv, self.signed)
        return self.p

    def const(self):
        return self.poly().const_value()

    def __repr__(self):
        return "%s%d(%r)" % ("i" if self.signed else "u", self.bits, self.poly())

    def key(self):
        return ("int", self.bits, self.signed, self.poly().key())


class BoolV:
    __slots__ = ("p",)

    def __init__(self, p):
        self.p = p

    def const(self):
        return self.p.const_value()

    def __repr__(self):
        return "bool(%r)" % (self.p,)

    def key(self):
        return ("bool", self.p.key())


class Agg:
    """aggregate with known shape. kind: 'adt' | 'tuple' | 'array' | 'closure'."""
    __slots__ = ("kind", "name", "variant", "fields", "ty", "extra")

    def __init__(self, kind, name, variant, fields, ty=None, extra=None):
        self.kind = kind
        self.name = name
        self.variant = variant
        self.fields = tuple(fields)
        self.ty = ty
        self.extra = extra  # closures: substitution of the creating frame

    def __repr__(self):
        if self.kind == "adt":
            return "%s::v%s(%s)" % (self.name.split("::")[-1], self.variant, ", ".join(repr(f) for f in self.fields))
        if self.kind == "closure":
            return "closure<%s>(%s)" % (self.name, ", ".join(repr(f) for f in self.fields))
        br = "[]" if self.kind == "array" else "()"
        return br[0] + ", ".join(repr(f) for f in self.fields) + br[1]

    def key(self):
        return ("agg", self.kind, self.name, self.variant, tuple(vkey(f) for f in self.fields))


class SymV:
    """opaque symbolic value of a type that is not (yet) expanded."""
    __slots__ = ("ty", "name")

    def __init__(self, ty, name):
        self.ty = ty
        self.name = name

    def __repr__(self):
        return "<%s: %s>" % (self.name, T.tstr(self.ty))

    def key(self):
        return ("sym", self.name)


class Ptr:
    """pointer / reference to a memory location. root: memory root key; path: tuple of steps;
    meta: IntV length for slice pointers; pty: pointee type (for lazy materialisation)."""
    __slots__ = ("root", "path", "meta", "pty", "mut")

    def __init__(self, root, path=(), meta=None, pty=None, mut=True):
        self.root = root
        self.path = tuple(path)
        self.meta = meta
        self.pty = pty
        self.mut = mut

    def with_(self, path=None, meta="keep", pty="keep"):
        return Ptr(self.root, self.path if path is None else path, self.meta if meta == "keep" else meta,
                   self.pty if pty == "keep" else pty, self.mut)

    def __repr__(self):
        return "&%s%s%s" % (self.root[-1] if self.root[0] == "O" else "L%s_%s" % (self.root[1], self.root[2]),
                            "".join("." + str(s[1]) if s[0] == "f" else "@%s" % (s[1],) if s[0] == "d" else "[%s]" % (s[1:],) for s in self.path),
                            "" if self.meta is None else " len=%r" % (self.meta,))

    def key(self):
        return ("ptr", self.root, self.path, vkey(self.meta) if self.meta is not None else None)


class FnV:
    """zero-sized function item value"""
    __slots__ = ("fn",)

    def __init__(self, fn):
        self.fn = fn

    def __repr__(self):
        return "fn<%s>" % self.fn["def"]

    def key(self):
        return ("fn", self.fn["def"], tuple(T.tkey(a) for a in self.fn["args"]))


class ITE:
    __slots__ = ("c", "a", "b")

    def __init__(self, c, a, b):
        self.c = c
        self.a = a
        self.b = b

    def __repr__(self):
        return "ite(%r ? %r : %r)" % (self.c, self.a, self.b)

    def key(self):
        return ("ite", self.c.key(), vkey(self.a), vkey(self.b))


class Term:
    """result of a pure uninterpreted function (value identity = function + arguments)."""
    __slots__ = ("fn", "args", "ty")

    def __init__(self, fn, args, ty=None):
        self.fn = fn
        self.args = tuple(args)
        self.ty = ty

    def __repr__(self):
        return "%s(%s)" % (self.fn, ", ".join(repr(a) for a in self.args))

    def key(self):
        return ("term", self.fn, tuple(vkey(a) for a in self.args))


class UndefT:
    def __repr__(self):
        return "undef"

    def key(self):
        return ("undef",)


Undef = UndefT()
UNITV = Agg("tuple", None, None, ())


def vkey(v):
    if v is None:
        return None
    return v.key()


def veq(a, b):
    if a is b:
        return True
    if type(a) is not type(b):
        return False
    return vkey(a) == vkey(b)


def mk_ite(c, a, b):
    """value-level if-then-else with simplification; c is a 0/1 Poly."""
    cv = c.const_value()
    if cv is not None:
        return a if cv else b
    if a is Undef:
        return b
    if b is Undef:
        return a
    if veq(a, b):
        return a
    if isinstance(a, IntV) and isinstance(b, IntV) and a.bits == b.bits and a.signed == b.signed:
        abv, bbv = a.bv, b.bv
        if abv is None and bbv is not None and a.p is not None and a.p.const_value() is not None:
            abv = bits_of_const(a.p.const_value() & ((1 << a.bits) - 1), a.bits)
        if bbv is None and abv is not None and b.p is not None and b.p.const_value() is not None:
            bbv = bits_of_const(b.p.const_value() & ((1 << b.bits) - 1), b.bits)
        ra, rb = a.range0(), b.range0()
        hint = None
        if None not in ra and None not in rb:
            hint = (min(ra[0], rb[0]), max(ra[1], rb[1]))
        if abv is not None and bbv is not None:
            return IntV(a.bits, a.signed, bv=[c * x + (ONE - c) * y for x, y in zip(abv, bbv)], hint=hint)
        return IntV(a.bits, a.signed, p=c * a.poly() + (ONE - c) * b.poly(), hint=hint)
    if isinstance(a, BoolV) and isinstance(b, BoolV):
        return BoolV(c * a.p + (ONE - c) * b.p)
    if isinstance(a, Agg) and isinstance(b, Agg) and a.kind == b.kind and a.name == b.name \
            and a.variant == b.variant and len(a.fields) == len(b.fields):
        return Agg(a.kind, a.name, a.variant, [mk_ite(c, x, y) for x, y in zip(a.fields, b.fields)], a.ty or b.ty, a.extra)
    return ITE(c, a, b)
