#!/usr/bin/env python3
"""regenerate spec/arg_names.json (parameter names by position, per function) from the tree VERIF_REPO points at.
Run on the pinned tree only: the table is the reference the loader canonicalises parameter names to."""
import json, os, sys
sys.path.insert(0, os.path.dirname(os.path.abspath(__file__)))
import facts

out = {}
for cfg in ("host+batch", "host-batch"):
    F = facts.load(cfg)
    for rec in F.bodies.values():
        if rec.get("kind") not in ("Fn", "AssocFn") or rec["id"] in F.prelude:
            continue
        body = rec["body"]
        n = int(body["arg_count"])
        names = [None] * n
        for d in body.get("debug", []):
            if d.get("arg") is not None and not d["place"]["proj"] and 1 <= d["place"]["local"] <= n:
                names[d["place"]["local"] - 1] = d["name"]
        k = facts.arg_key(rec)
        if k in out and out[k] != names:
            out[k] = None      # ambiguous key (two impls for one self type): not canonicalised
        else:
            out.setdefault(k, names)
out = {k: v for k, v in sorted(out.items()) if v}
json.dump(out, open(os.path.join(facts.VERIF, "spec", "arg_names.json"), "w"), indent=0)
print(len(out), "functions")
