"""Loader for the MIR fact files written by mirfacts, plus a readable printer.

Everything the rules know about /repo comes through this module: the fact file is the
type-checked, MIR-lowered program as the real compiler saw it for one build configuration.
"""
import json
import os
import subprocess
import sys

VERIF = os.path.dirname(os.path.dirname(os.path.abspath(__file__)))
REPO = os.environ.get("VERIF_REPO", "/repo")

QUICK_CONFIGS = ["host+batch", "host-batch"]
THOROUGH_CONFIGS = ["host+batch", "host-batch", "msp430+batch", "msp430-batch"]


class FactsError(Exception):
    pass


def extract(config):
    """Run the driver (or hit the source-hash cache) and return the fact file path."""
    r = subprocess.run([os.path.join(VERIF, "bin", "extract"), config],
                       capture_output=True, text=True)
    if r.returncode != 0:
        raise FactsError("fact extraction failed for %s:\n%s" % (config, r.stderr[-4000:]))
    path = r.stdout.strip().splitlines()[-1]
    if not os.path.isfile(path) or os.path.getsize(path) == 0:
        raise FactsError("fact file missing for %s" % config)
    return path


class Facts:
    def __init__(self, path, config):
        self.path = path
        self.config = config
        with open(path) as f:
            d = json.load(f)
        self.raw = d
        self.crate = d["crate"]
        self.pointer_bits = int(d["pointer_bits"])
        self.cfg = [tuple(x) for x in d["cfg"]]
        self.batch = ("feature", "batch") in self.cfg
        self.endian = dict((k, v) for k, v in self.cfg).get("target_endian", "little")
        self.bodies = {}
        for b in d["bodies"]:
            self.bodies[b["id"]] = b
        self.consts = {}
        for c in d["consts"]:
            self.consts[c["id"]] = c
        self.adts = {a["id"]: a for a in d["adts"]}
        self.traits = {t["id"]: t for t in d["traits"]}
        # dedupe impls by id
        self.impls = {}
        for i in d["impls"]:
            self.impls[i["id"]] = i
        self.impls_by_trait = {}
        for i in self.impls.values():
            self.impls_by_trait.setdefault(i.get("trait"), []).append(i)

    # -------------------------------------------------------------- lookups
    def body(self, def_id):
        return self.bodies.get(def_id)

    def find_bodies(self, pred):
        return [b for b in self.bodies.values() if pred(b)]

    def inherent_method(self, adt, name):
        """bodies of inherent methods `name` on ADT `adt` (canonical def path)."""
        out = []
        for b in self.bodies.values():
            c = b["container"]
            if b.get("name") == name and c.get("kind") == "inherent_impl":
                st = c["self_ty"]
                if st.get("k") == "adt" and st["def"] == adt:
                    out.append(b)
        return out

    def trait_impl_method(self, trait, name, self_adt=None, self_pred=None):
        out = []
        for b in self.bodies.values():
            c = b["container"]
            if b.get("name") == name and c.get("kind") == "trait_impl" and c.get("trait") == trait:
                st = c["self_ty"]
                if self_adt is not None and not (st.get("k") == "adt" and st["def"] == self_adt):
                    continue
                if self_pred is not None and not self_pred(st):
                    continue
                out.append(b)
        return out

    def trait_default_method(self, trait, name):
        for b in self.bodies.values():
            c = b["container"]
            if b.get("name") == name and c.get("kind") == "trait" and c.get("trait") == trait:
                return b
        return None

    def is_mock(self, b):
        return b["id"].startswith(self.crate + "::_mock")


_cache = {}


def load(config):
    if config in _cache:
        return _cache[config]
    p = extract(config)
    f = Facts(p, config)
    # Rust-written models of closure-taking core methods (prelude/), lowered for the same target
    try:
        pp = extract("prelude-" + config.split("+")[0].split("-")[0])
        with open(pp) as fh:
            pd = json.load(fh)
        f.prelude = {b["id"]: b for b in pd["bodies"]}
        for b in pd["bodies"]:
            f.bodies.setdefault(b["id"], b)
    except (FactsError, OSError, ValueError, KeyError):
        f.prelude = {}
    _cache[config] = f
    return f


# ------------------------------------------------------------------ printer
def ty_s(t):
    return t.get("s", "?")


def place_s(p):
    s = "_%d" % p["local"]
    for e in p["proj"]:
        k = e["k"]
        if k == "deref":
            s = "(*%s)" % s
        elif k == "field":
            s = "%s.%d" % (s, e["i"])
        elif k == "index":
            s = "%s[_%d]" % (s, e["local"])
        elif k == "constindex":
            s = "%s[%s%d of %d]" % (s, "-" if e["from_end"] else "", e["offset"], e["min_length"])
        elif k == "subslice":
            s = "%s[%d..%s%d]" % (s, e["from"], "-" if e["from_end"] else "", e["to"])
        elif k == "downcast":
            s = "(%s as %s)" % (s, e.get("name") or e["variant"])
        else:
            s = "%s.<%s>" % (s, k)
    return s


def op_s(o):
    k = o["k"]
    if k in ("copy", "move"):
        return ("move " if k == "move" else "") + place_s(o["place"])
    if k == "const":
        if "val" in o:
            return "const %s_%s" % (o["val"], ty_s(o["ty"]))
        return "const {%s}" % o.get("s", "?")
    return "<%s>" % k


def rv_s(r):
    k = r["k"]
    if k == "use":
        return op_s(r["op"])
    if k == "ref":
        return "&%s%s" % ("mut " if r["mut"] else "", place_s(r["place"]))
    if k == "rawptr":
        return "&raw %s" % place_s(r["place"])
    if k == "cast":
        return "%s as %s (%s)" % (op_s(r["op"]), ty_s(r["ty"]), r["kind"])
    if k == "binop":
        return "%s(%s, %s)" % (r["op"], op_s(r["a"]), op_s(r["b"]))
    if k == "unop":
        return "%s(%s)" % (r["op"], op_s(r["a"]))
    if k == "discriminant":
        return "discriminant(%s)" % place_s(r["place"])
    if k == "aggregate":
        kk = r["kind"]
        ops = ", ".join(op_s(o) for o in r["ops"])
        if kk["k"] == "adt":
            return "%s::v%d{%s}" % (kk["def"].split("::")[-1], kk["variant"], ops)
        if kk["k"] == "closure":
            return "closure %s{%s}" % (kk["def"], ops)
        return "%s[%s]" % (kk["k"], ops)
    if k == "repeat":
        return "[%s; %s]" % (op_s(r["op"]), r["count"].get("s", r["count"].get("val")))
    return "<%s>" % k


def term_s(t):
    k = t["k"]
    if k == "goto":
        return "goto bb%d" % t["target"]
    if k == "switch":
        arms = ", ".join("%s: bb%d" % (v, bb) for v, bb in t["arms"])
        return "switchInt(%s) [%s, otherwise: bb%d]" % (op_s(t["discr"]), arms, t["otherwise"])
    if k == "call":
        callee = t.get("callee")
        name = callee["pretty"] if callee else op_s(t["func"])
        res = ""
        if t.get("resolved") and callee and t["resolved"]["fn"]["def"] != callee["def"]:
            res = "  [=> %s]" % t["resolved"]["fn"]["pretty"]
        return "%s = %s(%s) -> %s%s" % (place_s(t["dest"]), name, ", ".join(op_s(a) for a in t["args"]),
                                        "bb%s" % t["target"] if t["target"] is not None else "!", res)
    if k == "assert":
        return "assert(%s == %s, %s) -> bb%d" % (op_s(t["cond"]), t["expected"], t["msg"]["k"], t["target"])
    if k == "drop":
        return "drop(%s) -> bb%d" % (place_s(t["place"]), t["target"])
    return k


def dump_body(b, out=sys.stdout, body=None):
    body = body or b["body"]
    out.write("fn %s  [%s]  %s:%s\n" % (b["id"], b["pretty"], b["span"]["file"], b["span"]["line"]))
    out.write("  generics: %s\n" % ", ".join(p["name"] for p in b["generics"]["params"]))
    names = {}
    for d in body["debug"]:
        if not d["place"]["proj"]:
            names[d["place"]["local"]] = d["name"]
    for i, l in enumerate(body["locals"]):
        out.write("  let _%d: %s%s%s\n" % (i, ty_s(l["ty"]), "  // arg" if 0 < i <= int(body["arg_count"]) else "",
                                          "  // " + names[i] if i in names else ""))
    for i, bb in enumerate(body["blocks"]):
        out.write("  bb%d%s:\n" % (i, " (cleanup)" if bb["cleanup"] else ""))
        for s in bb["stmts"]:
            if s["k"] == "assign":
                out.write("    %s = %s\n" % (place_s(s["place"]), rv_s(s["rv"])))
            elif s["k"] == "setdiscr":
                out.write("    discriminant(%s) = %d\n" % (place_s(s["place"]), s["variant"]))
            elif s["k"] == "intrinsic":
                out.write("    intrinsic %s\n" % s["s"])
        out.write("    %s\n" % term_s(bb["term"]))


if __name__ == "__main__":
    cfg = sys.argv[1]
    pat = sys.argv[2] if len(sys.argv) > 2 else None
    F = load(cfg)
    for b in F.bodies.values():
        if pat is None:
            print(b["kind"], b["id"], "|", b["pretty"])
        elif pat in b["id"] or pat in b["pretty"]:
            dump_body(b)
            for i, p in enumerate(b.get("promoted", [])):
                print("  -- promoted[%d]" % i)
                dump_body(b, body=p)
            print()
