"""Loader for the MIR fact files written by mirfacts, plus a readable printer.

Everything the rules know about /repo comes through this module: the fact file is the
type-checked, MIR-lowered program as the real compiler saw it for one build configuration.
"""
import json
import os
import subprocess
import sys

VERIF = os.path.dirname(os.path.dirname(os.path.abspath(__file__)))
REPO = os.environ.get("VERIF_REPO", "/repo")

QUICK_CONFIGS = ["host+batch", "host-batch"]
THOROUGH_CONFIGS = ["host+batch", "host-batch", "msp430+batch", "msp430-batch"]


class FactsError(Exception):
    pass


def extract(config):
    """Run the driver (or hit the source-hash cache) and return the fact file path."""
    r = subprocess.run([os.environ.get("VERIF_EXTRACT") or os.path.join(VERIF, "bin", "extract"), config],
                       capture_output=True, text=True)
    if r.returncode != 0:
        raise FactsError("fact extraction failed for %s:\n%s" % (config, r.stderr[-4000:]))
    path = r.stdout.strip().splitlines()[-1]
    if not os.path.isfile(path) or os.path.getsize(path) == 0:
        raise FactsError("fact file missing for %s" % config)
    return path


class Facts:
    def __init__(self, path, config):
        self.path = path
        self.config = config
        with open(path) as f:
            d = json.load(f)
        self.raw = d
        self.crate = d["crate"]
        self.pointer_bits = int(d["pointer_bits"])
        self.cfg = [tuple(x) for x in d["cfg"]]
        self.batch = ("feature", "batch") in self.cfg
        self.endian = dict((k, v) for k, v in self.cfg).get("target_endian", "little")
        self.bodies = {}
        for b in d["bodies"]:
            self.bodies[b["id"]] = b
        self.consts = {}
        for c in d["consts"]:
            self.consts[c["id"]] = c
        self.adts = {a["id"]: a for a in d["adts"]}
        self.traits = {t["id"]: t for t in d["traits"]}
        # dedupe impls by id
        self.impls = {}
        for i in d["impls"]:
            self.impls[i["id"]] = i
        self.impls_by_trait = {}
        for i in self.impls.values():
            self.impls_by_trait.setdefault(i.get("trait"), []).append(i)

    # -------------------------------------------------------------- lookups
    def body(self, def_id):
        return self.bodies.get(def_id)

    def find_bodies(self, pred):
        return [b for b in self.bodies.values() if pred(b)]

    def inherent_method(self, adt, name):
        """bodies of inherent methods `name` on ADT `adt` (canonical def path)."""
        out = []
        for b in self.bodies.values():
            c = b["container"]
            if b.get("name") == name and c.get("kind") == "inherent_impl":
                st = c["self_ty"]
                if st.get("k") == "adt" and st["def"] == adt:
                    out.append(b)
        return out

    def trait_impl_method(self, trait, name, self_adt=None, self_pred=None):
        out = []
        for b in self.bodies.values():
            c = b["container"]
            if b.get("name") == name and c.get("kind") == "trait_impl" and c.get("trait") == trait:
                st = c["self_ty"]
                if self_adt is not None and not (st.get("k") == "adt" and st["def"] == self_adt):
                    continue
                if self_pred is not None and not self_pred(st):
                    continue
                out.append(b)
        return out

    def trait_default_method(self, trait, name):
        for b in self.bodies.values():
            c = b["container"]
            if b.get("name") == name and c.get("kind") == "trait" and c.get("trait") == trait:
                return b
        return None

    def is_mock(self, b):
        return b["id"].startswith(self.crate + "::_mock")


_cache = {}


def load(config):
    if config in _cache:
        return _cache[config]
    p = extract(config)
    f = Facts(p, config)
    # Rust-written models of closure-taking core methods (prelude/), lowered for the same target
    try:
        pp = extract("prelude-" + config.split("+")[0].split("-")[0])
        with open(pp) as fh:
            pd = json.load(fh)
        f.prelude = {b["id"]: b for b in pd["bodies"]}
        for b in pd["bodies"]:
            f.bodies.setdefault(b["id"], b)
    except (FactsError, OSError, ValueError, KeyError):
        f.prelude = {}
    canonicalise(f)
    _cache[config] = f
    return f


# ------------------------------------------------------------------ canonical names
# The interpreter names symbolic inputs after struct fields and parameters (`*self.dc`, `count`), and the rules refer to
# those names. Private field names and parameter names are not part of the crate's interface: renaming them changes no
# behaviour. They are therefore canonicalised when the facts are loaded - private fields by their *type* (type-parameter
# position of the public struct, or the one field of a given type), parameters by *position* (the names they have on the
# pinned tree, spec/arg_names.json, keyed by trait / self type / method name). A struct whose fields no longer match the
# roles one-to-one is left alone: the rules then fail closed on the missing name.
_MO = "mipidsi::options::ModelOptions"
_SAM = "mipidsi::dcs::set_address_mode::SetAddressMode"
PRIVATE_ROLES = {
    "mipidsi::interface::spi::SpiInterface": [("spi", ("param", 1)), ("dc", ("param", 2)), ("buffer", ("refslice",))],
    "mipidsi::interface::parallel::ParallelInterface": [("bus", ("param", 0)), ("dc", ("param", 1)), ("wr", ("param", 2))],
    "mipidsi::Display": [("di", ("param", 0)), ("model", ("param", 1)), ("rst", ("optparam", 2)), ("options", ("adt", _MO)),
                         ("madctl", ("adt", _SAM)), ("sleeping", ("bool",))],
    "mipidsi::builder::Builder": [("di", ("param", 0)), ("model", ("param", 1)), ("rst", ("optparam", 2)), ("options", ("adt", _MO))],
    "mipidsi::interface::parallel::Generic8BitBus": [("pins", ("tuple",)), ("last", ("optint",))],
    "mipidsi::interface::parallel::Generic16BitBus": [("pins", ("tuple",)), ("last", ("optint",))],
}


def _role_matches(ty, spec):
    k = spec[0]
    if k == "param":
        return ty.get("k") == "param" and ty.get("idx") == spec[1]
    if k == "optparam":
        return ty.get("k") == "adt" and ty.get("def") == "core::option::Option" and ty["args"] and \
            ty["args"][0].get("k") == "param" and ty["args"][0].get("idx") == spec[1]
    if k == "optint":
        return ty.get("k") == "adt" and ty.get("def") == "core::option::Option" and ty["args"] and ty["args"][0].get("k") == "int"
    if k == "adt":
        return ty.get("k") == "adt" and ty.get("def") == spec[1]
    if k == "bool":
        return ty.get("k") == "bool"
    if k == "tuple":
        return ty.get("k") == "tuple"
    if k == "refslice":
        return ty.get("k") == "ref" and (ty.get("ty") or {}).get("k") == "slice"
    return False


def arg_key(rec):
    ct = rec.get("container") or {}
    st = ct.get("self_ty") or {}
    sd = st.get("def") or st.get("s")
    if ct.get("kind") == "trait_impl":
        return "T|%s|%s|%s" % (ct.get("trait"), sd, rec["name"])
    if ct.get("kind") == "inherent_impl":
        return "I|%s|%s" % (sd, rec["name"])
    return "F|%s" % rec["id"]


def canonicalise(f):
    f.renamed = []
    for adt, roles in PRIVATE_ROLES.items():
        a = f.adts.get(adt)
        if a is None or not a.get("variants"):
            continue
        fields = a["variants"][0]["fields"]
        hit = {}
        ok = len(fields) == len(roles)
        for name, spec in roles:
            m = [i for i, fl in enumerate(fields) if _role_matches(fl["ty"], spec)]
            if len(m) != 1 or m[0] in hit.values():
                ok = False
                break
            hit[name] = m[0]
        if not ok:
            continue
        for name, i in hit.items():
            if fields[i]["name"] != name:
                f.renamed.append("%s.%s -> %s" % (adt, fields[i]["name"], name))
                fields[i]["name"] = name
    try:
        with open(os.path.join(VERIF, "spec", "arg_names.json")) as fh:
            table = json.load(fh)
    except (OSError, ValueError):
        table = {}
    for rec in f.bodies.values():
        if rec.get("kind") not in ("Fn", "AssocFn") or rec["id"] in getattr(f, "prelude", {}):
            continue
        want = table.get(arg_key(rec))
        body = rec.get("body")
        if not want or body is None or int(body["arg_count"]) != len(want):
            continue
        for d in body.get("debug", []):
            if d.get("arg") is not None and not d["place"]["proj"] and 1 <= d["place"]["local"] <= len(want):
                w = want[d["place"]["local"] - 1]
                if w and d["name"] != w:
                    f.renamed.append("%s(%s -> %s)" % (rec["pretty"], d["name"], w))
                    d["name"] = w


# ------------------------------------------------------------------ printer
def ty_s(t):
    return t.get("s", "?")


def place_s(p):
    s = "_%d" % p["local"]
    for e in p["proj"]:
        k = e["k"]
        if k == "deref":
            s = "(*%s)" % s
        elif k == "field":
            s = "%s.%d" % (s, e["i"])
        elif k == "index":
            s = "%s[_%d]" % (s, e["local"])
        elif k == "constindex":
            s = "%s[%s%d of %d]" % (s, "-" if e["from_end"] else "", e["offset"], e["min_length"])
        elif k == "subslice":
            s = "%s[%d..%s%d]" % (s, e["from"], "-" if e["from_end"] else "", e["to"])
        elif k == "downcast":
            s = "(%s as %s)" % (s, e.get("name") or e["variant"])
        else:
            s = "%s.<%s>" % (s, k)
    return s


def op_s(o):
    k = o["k"]
    if k in ("copy", "move"):
        return ("move " if k == "move" else "") + place_s(o["place"])
    if k == "const":
        if "val" in o:
            return "const %s_%s" % (o["val"], ty_s(o["ty"]))
        return "const {%s}" % o.get("s", "?")
    return "<%s>" % k


def rv_s(r):
    k = r["k"]
    if k == "use":
        return op_s(r["op"])
    if k == "ref":
        return "&%s%s" % ("mut " if r["mut"] else "", place_s(r["place"]))
    if k == "rawptr":
        return "&raw %s" % place_s(r["place"])
    if k == "cast":
        return "%s as %s (%s)" % (op_s(r["op"]), ty_s(r["ty"]), r["kind"])
    if k == "binop":
        return "%s(%s, %s)" % (r["op"], op_s(r["a"]), op_s(r["b"]))
    if k == "unop":
        return "%s(%s)" % (r["op"], op_s(r["a"]))
    if k == "discriminant":
        return "discriminant(%s)" % place_s(r["place"])
    if k == "aggregate":
        kk = r["kind"]
        ops = ", ".join(op_s(o) for o in r["ops"])
        if kk["k"] == "adt":
            return "%s::v%d{%s}" % (kk["def"].split("::")[-1], kk["variant"], ops)
        if kk["k"] == "closure":
            return "closure %s{%s}" % (kk["def"], ops)
        return "%s[%s]" % (kk["k"], ops)
    if k == "repeat":
        return "[%s; %s]" % (op_s(r["op"]), r["count"].get("s", r["count"].get("val")))
    return "<%s>" % k


def term_s(t):
    k = t["k"]
    if k == "goto":
        return "goto bb%d" % t["target"]
    if k == "switch":
        arms = ", ".join("%s: bb%d" % (v, bb) for v, bb in t["arms"])
        return "switchInt(%s) [%s, otherwise: bb%d]" % (op_s(t["discr"]), arms, t["otherwise"])
    if k == "call":
        callee = t.get("callee")
        name = callee["pretty"] if callee else op_s(t["func"])
        res = ""
        if t.get("resolved") and callee and t["resolved"]["fn"]["def"] != callee["def"]:
            res = "  [=> %s]" % t["resolved"]["fn"]["pretty"]
        return "%s = %s(%s) -> %s%s" % (place_s(t["dest"]), name, ", ".join(op_s(a) for a in t["args"]),
                                        "bb%s" % t["target"] if t["target"] is not None else "!", res)
    if k == "assert":
        return "assert(%s == %s, %s) -> bb%d" % (op_s(t["cond"]), t["expected"], t["msg"]["k"], t["target"])
    if k == "drop":
        return "drop(%s) -> bb%d" % (place_s(t["place"]), t["target"])
    return k


def dump_body(b, out=sys.stdout, body=None):
    body = body or b["body"]
    out.write("fn %s  [%s]  %s:%s\n" % (b["id"], b["pretty"], b["span"]["file"], b["span"]["line"]))
    out.write("  generics: %s\n" % ", ".join(p["name"] for p in b["generics"]["params"]))
    names = {}
    for d in body["debug"]:
        if not d["place"]["proj"]:
            names[d["place"]["local"]] = d["name"]
    for i, l in enumerate(body["locals"]):
        out.write("  let _%d: %s%s%s\n" % (i, ty_s(l["ty"]), "  // arg" if 0 < i <= int(body["arg_count"]) else "",
                                          "  // " + names[i] if i in names else ""))
    for i, bb in enumerate(body["blocks"]):
        out.write("  bb%d%s:\n" % (i, " (cleanup)" if bb["cleanup"] else ""))
        for s in bb["stmts"]:
            if s["k"] == "assign":
                out.write("    %s = %s\n" % (place_s(s["place"]), rv_s(s["rv"])))
            elif s["k"] == "setdiscr":
                out.write("    discriminant(%s) = %d\n" % (place_s(s["place"]), s["variant"]))
            elif s["k"] == "intrinsic":
                out.write("    intrinsic %s\n" % s["s"])
        out.write("    %s\n" % term_s(bb["term"]))


if __name__ == "__main__":
    cfg = sys.argv[1]
    pat = sys.argv[2] if len(sys.argv) > 2 else None
    F = load(cfg)
    for b in F.bodies.values():
        if pat is None:
            print(b["kind"], b["id"], "|", b["pretty"])
        elif pat in b["id"] or pat in b["pretty"]:
            dump_body(b)
            for i, p in enumerate(b.get("promoted", [])):
                print("  -- promoted[%d]" % i)
                dump_body(b, body=p)
            print()
