"""Type utilities over the JSON types of the fact file: structural keys, substitution of
generic parameters, unification (for impl selection), associated-type normalisation."""


def tkey(t):
    """hashable structural key of a type / generic argument (ignores display strings)."""
    if t is None:
        return None
    k = t.get("k")
    if k == "int":
        return ("int", t["bits"], t["signed"])
    if k in ("bool", "char", "float", "str", "never", "lifetime", "fnptr", "dyn"):
        return (k,)
    if k == "adt":
        return ("adt", t["def"], tuple(tkey(a) for a in t["args"] if a.get("k") != "lifetime"))
    if k == "ref":
        return ("ref", t["mut"], tkey(t["ty"]))
    if k == "ptr":
        return ("ptr", t["mut"], tkey(t["ty"]))
    if k == "tuple":
        return ("tuple", tuple(tkey(x) for x in t["tys"]))
    if k == "array":
        return ("array", tkey(t["ty"]), tkey(t["len"]))
    if k == "slice":
        return ("slice", tkey(t["ty"]))
    if k == "param":
        return ("param", t["name"])
    if k == "proj":
        return ("proj", t["def"], tuple(tkey(a) for a in t["args"] if a.get("k") != "lifetime"))
    if k in ("opaque", "alias_other"):
        return (k, t["def"], tuple(tkey(a) for a in t["args"] if a.get("k") != "lifetime"))
    if k == "fndef":
        return ("fndef", t["fn"]["def"], tuple(tkey(a) for a in t["fn"]["args"] if a.get("k") != "lifetime"))
    if k == "closure":
        return ("closure", t["def"])
    if k == "const":
        return ("const", int(t["val"]))
    if k == "cparam":
        return ("cparam", t["name"])
    if k == "cuneval":
        return ("cuneval", t["def"], tuple(tkey(a) for a in t["args"] if a.get("k") != "lifetime"))
    return ("other", t.get("s"))


def tstr(t):
    """human string of a (possibly substituted) type"""
    if t is None:
        return "?"
    k = t.get("k")
    if k == "int":
        b = t["bits"]
        return ("i" if t["signed"] else "u") + ("size" if b == "ptr" else str(b))
    if k == "adt":
        args = [tstr(a) for a in t["args"] if a.get("k") != "lifetime"]
        return t["def"].split("::")[-1] + ("<" + ", ".join(args) + ">" if args else "")
    if k == "ref":
        return "&" + ("mut " if t["mut"] else "") + tstr(t["ty"])
    if k == "ptr":
        return "*" + ("mut " if t["mut"] else "const ") + tstr(t["ty"])
    if k == "tuple":
        return "(" + ", ".join(tstr(x) for x in t["tys"]) + ")"
    if k == "array":
        return "[%s; %s]" % (tstr(t["ty"]), tstr(t["len"]))
    if k == "slice":
        return "[%s]" % tstr(t["ty"])
    if k == "param":
        return t["name"]
    if k == "proj":
        a = [x for x in t["args"] if x.get("k") != "lifetime"]
        return "<%s as %s>::%s" % (tstr(a[0]) if a else "?", t.get("trait", "?").split("::")[-1], t["name"])
    if k == "const":
        return str(t["val"])
    if k == "cparam":
        return t["name"]
    if k == "fndef":
        return "fn " + t["fn"]["def"]
    if k == "closure":
        return "closure " + t["def"]
    return t.get("s", k)


def subst(t, m):
    """substitute generic parameters by name; m: name -> type/const json."""
    if not m or t is None:
        return t
    k = t.get("k")
    if k == "param" or k == "cparam":
        r = m.get(t["name"])
        return r if r is not None else t
    if k == "adt":
        return {"k": "adt", "def": t["def"], "args": [subst(a, m) for a in t["args"]]}
    if k in ("ref", "ptr"):
        return {"k": k, "mut": t["mut"], "ty": subst(t["ty"], m)}
    if k == "tuple":
        return {"k": "tuple", "tys": [subst(x, m) for x in t["tys"]]}
    if k == "array":
        return {"k": "array", "ty": subst(t["ty"], m), "len": subst(t["len"], m)}
    if k == "slice":
        return {"k": "slice", "ty": subst(t["ty"], m)}
    if k == "proj":
        return {"k": "proj", "def": t["def"], "name": t["name"], "trait": t.get("trait"),
                "args": [subst(a, m) for a in t["args"]]}
    if k in ("opaque", "alias_other"):
        return {"k": k, "def": t["def"], "args": [subst(a, m) for a in t["args"]], "s": t.get("s")}
    if k == "fndef":
        f = dict(t["fn"])
        f["args"] = [subst(a, m) for a in f["args"]]
        return {"k": "fndef", "fn": f}
    if k == "closure":
        r = dict(t)
        r["parent_args"] = [subst(a, m) for a in t.get("parent_args", [])]
        r["upvars"] = [subst(a, m) for a in t.get("upvars", [])]
        return r
    if k == "cuneval":
        return {"k": "cuneval", "def": t["def"], "args": [subst(a, m) for a in t["args"]], "s": t.get("s")}
    return t


def unify(pat, act, binds):
    """one-way unification: parameters in `pat` are variables. binds: name -> type."""
    pk = pat.get("k")
    if pk in ("param", "cparam"):
        n = pat["name"]
        if n in binds:
            return tkey(binds[n]) == tkey(act)
        binds[n] = act
        return True
    if pk == "lifetime":
        return True
    ak = act.get("k")
    if pk != ak:
        return False
    if pk == "adt":
        if pat["def"] != act["def"] or len(pat["args"]) != len(act["args"]):
            return False
        return all(unify(p, a, binds) for p, a in zip(pat["args"], act["args"]))
    if pk in ("ref", "ptr"):
        return pat["mut"] == act["mut"] and unify(pat["ty"], act["ty"], binds)
    if pk == "tuple":
        return len(pat["tys"]) == len(act["tys"]) and all(unify(p, a, binds) for p, a in zip(pat["tys"], act["tys"]))
    if pk == "array":
        return unify(pat["ty"], act["ty"], binds) and unify(pat["len"], act["len"], binds)
    if pk == "slice":
        return unify(pat["ty"], act["ty"], binds)
    if pk == "proj":
        # a projection in an impl header cannot be matched structurally in general
        return tkey(pat) == tkey(act)
    return tkey(pat) == tkey(act)


def is_concrete_head(t):
    """True if the outermost constructor of t is known (so impl selection can be attempted)."""
    return t.get("k") not in ("param", "proj", "opaque", "alias_other", "cparam", None)


def int_ty(t, pointer_bits):
    """(bits, signed) for integer / bool / char types, else None"""
    k = t.get("k")
    if k == "int":
        b = t["bits"]
        return (pointer_bits if b == "ptr" else int(b), bool(t["signed"]))
    if k == "bool":
        return (1, False)
    if k == "char":
        return (32, False)
    return None


def mk_int(bits, signed):
    return {"k": "int", "bits": bits, "signed": signed}


U8 = mk_int(8, False)
U16 = mk_int(16, False)
U32 = mk_int(32, False)
USIZE = {"k": "int", "bits": "ptr", "signed": False}
BOOL = {"k": "bool"}
UNIT = {"k": "tuple", "tys": []}
