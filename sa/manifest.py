"""writes /verif/MANIFEST.json from the table below (kept next to the rules so that the
claims and the implementation change together)."""
import json, os
VERIF = os.path.dirname(os.path.dirname(os.path.abspath(__file__)))

CHECKS = {
    "C09": dict(level="proof", design="5/C09",
                technique="abstract interpretation of MIR (polymorphic Builder::init) + canonical comparison-atom polynomials compared with the oracle decision list",
                text="Decides, for all (w,h,ox,oy) in u16^4 and all framebuffer sizes at once, that the path conditions under which Builder::init returns InvalidDisplaySize / InvalidDisplayOffset / proceeds equal the property's decision list, that rejected paths emit no pin, delay or bus event, and that the validation arithmetic cannot wrap. One polymorphic MIR body covers every model, transport and reset-pin type.",
                note="Trusted: rustc MIR, the interpreter's polynomial normal form, u32::from(u16) being value preserving. Model::init is an abstract event here (its own behaviour is C11)."),
}

NOT_APPLICABLE = {
    "C03": "equivalence of two nested stateful iterators with per-pixel semantics over unbounded streams needs inductive invariants over accumulator histories; no dataflow/typestate/abstract-interpretation rule in reach decides it (shape-level necessary conditions are covered under C02/C12/C20)",
    "C19": "a property of the rendered picture (pixel-exact frame, colour regions, asymmetry) as a function of target size through embedded-graphics primitives whose bodies are outside the analysed crate; nothing picture-level is visible in the shape of the code",
}


def main():
    checks = []
    for pid in sorted(CHECKS):
        c = CHECKS[pid]
        checks.append({
            "property_id": pid,
            "quick_cmd": "bin/check %s --tier quick" % pid,
            "thorough_cmd": "bin/check %s --tier thorough" % pid,
            "evidence_file": "/verif/evidence/%s.json" % pid,
            "replay_cmd_template": "bin/check %s --replay {path}" % pid,
            "engine": "mirfacts+aim",
            "level_claimed": {"category": c["level"], "text": c["text"], "design_ref": "DESIGN.md section " + c["design"]},
            "level_note": c["note"],
            "technique": c["technique"],
        })
    all_ids = ["C%02d" % i for i in range(1, 21)]
    na = []
    for pid in all_ids:
        if pid in CHECKS:
            continue
        na.append({"property_id": pid, "reason": NOT_APPLICABLE.get(pid, "not yet claimed: the static rule for this property is not implemented in this revision")})
    m = {
        "version": 1,
        "setup_cmd": "bin/setup.sh",
        "hooks": {"guard": "none (static analysis needs no instrumentation of /repo)", "enable": "n/a: checks read /repo's working tree through the compiler (cargo +nightly check with a rustc_private wrapper)",
                  "baseline_off_cmd": "cd /repo && cargo test --workspace --no-fail-fast --offline", "source_commits": [], "add_only": True},
        "engines": [
            {"name": "mirfacts", "path": "mirfacts/", "serves_properties": sorted(CHECKS), "kind_free_text": "rustc_private driver dumping type-checked MIR, impl/ADT/const tables of /repo per build configuration"},
            {"name": "aim", "path": "sa/", "serves_properties": sorted(CHECKS), "kind_free_text": "abstract interpreter over MIR facts (symbolic polynomials, bit-sliced values, join merging, loop havoc) + per-property rules in sa/rules"},
        ],
        "checks": checks,
        "not_applicable": na,
        "notes": "Static analysis only: no code of /repo is executed by any check. See DESIGN.md.",
    }
    with open(os.path.join(VERIF, "MANIFEST.json"), "w") as f:
        json.dump(m, f, indent=1)


if __name__ == "__main__":
    main()
