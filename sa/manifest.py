"""writes /verif/MANIFEST.json from the table below (kept next to the rules so that the
claims and the implementation change together)."""
import json, os
VERIF = os.path.dirname(os.path.dirname(os.path.abspath(__file__)))

CHECKS = {
    "C09": dict(level="proof", design="5/C09",
                technique="abstract interpretation of MIR (polymorphic Builder::init) + canonical comparison-atom polynomials compared with the oracle decision list",
                text="Decides, for all (w,h,ox,oy) in u16^4 and all framebuffer sizes at once, that the path conditions under which Builder::init returns InvalidDisplaySize / InvalidDisplayOffset / proceeds equal the property's decision list, that rejected paths emit no pin, delay or bus event, and that the validation arithmetic cannot wrap. One polymorphic MIR body covers every model, transport and reset-pin type.",
                note="Trusted: rustc MIR, the interpreter's polynomial normal form, u32::from(u16) being value preserving. Model::init is an abstract event here (its own behaviour is C11)."),
    "C17": dict(level="proof", design="5/C17",
                technique="typestate / event-order analysis: interpretation of polymorphic Builder::init to event words + crate-wide who-drives / who-constructs inventories over MIR",
                text="Every path of Builder::init (symbolic Option<RST>, any model / transport / options) is classified by its event word: with a pin PIN_LO(rst).DELAY>=10us.PIN_HI(rst) with no bus event before the pin is high and no soft reset; without a pin exactly one parameterless CMD(0x01) first; Model::init follows on every success path, error paths are prefixes. Inventories: the reset pin is driven nowhere else, Display is constructed only by Builder::init, none of the 14 model inits sends opcode 0x01 and all their opcodes are constants.",
                note="Trusted: rustc MIR, interpreter, embedded-hal trait methods are the hardware events. External Model impls: only the generic part (reset before Model::init) is covered."),
    "C13": dict(level="proof", design="5/C13",
                technique="inductive invariant discharged per method by abstract interpretation of MIR (event words, minimum-delay sums, field-flow of the sleeping flag)",
                text="The invariant 'sleeping flag = state implied by the last sleep-class command' is proved for every history by per-method obligations on polymorphic MIR: init constructs sleeping=false and each built-in model init ends with sleep-out + >=120 ms; sleep/wake emit exactly their opcode, then >=120 ms, then set the flag, and leave it unchanged on error paths; every other &mut-self method of Display provably neither writes the flag nor emits 0x10/0x11.",
                note="Trusted: rustc MIR, interpreter, DelayNs unit semantics. The unsafe dcs() escape hatch is outside the property."),
    "C14": dict(level="proof", design="5/C14",
                technique="bit-sliced abstract interpretation: the byte as a canonical multilinear polynomial over input bits and enum indicators, compared with the MIPI oracle",
                text="new / with_color_order / with_orientation / with_refresh_order / From<&ModelOptions> / default are interpreted on a fully symbolic starting byte and symbolic enum arguments; polynomial equality with the oracle decides all 256 x 2 x 8 x 4 cases at once (bits 7-5 from the orientation geometry, 4/3/2 from the property text, 1-0 zero), including that each updater changes only its own bits.",
                note="Trusted: rustc MIR, interpreter, MIPI bit layout as stated in the property. Field privacy (checked) makes the analysed functions the only constructors."),
    "C18": dict(level="proof", design="5/C18",
                technique="abstract interpretation of every DcsCommand impl on a symbolic 16-byte buffer; per-bit polynomial equality with the MIPI opcode / big-endian table",
                text="For all 18 DcsCommand impls: opcode, returned length, every written parameter byte (all 2^16 values per field at once) and every untouched buffer cell are compared with the MIPI DCS table; write_command::<_, T> is interpreted for each T and must emit exactly one send_command with that opcode and the first n bytes; write_raw must forward its arguments unchanged.",
                note="Trusted: rustc MIR, interpreter, summaries of u16::to_be_bytes / copy_from_slice / slice indexing, the MIPI opcode table."),
    "C15": dict(level="proof", design="5/C15",
                technique="constant propagation of MIR over the finite enum domains against a D4 matrix oracle; path-wise interval/congruence analysis of try_from_degree",
                text="(a) rotate / flip_horizontal / flip_vertical / MemoryMapping::from_orientation are folded for all 8 orientations x 4 rotations and must satisfy the dihedral-group identities of the property (matrix oracle), with the unreachable!() arm unreachable. (b) try_from_degree is interpreted path-wise on a symbolic i32: matched value = angle or angle.rem_euclid(M) with 360|M, each Ok arm returns the rotation of exactly the matched multiple of 90, the default arm rejects no multiple of 90 in the value's range, nothing overflows: total and correct for all 2^32 angles.",
                note="Trusted: rustc MIR, interpreter, rem_euclid contract. The decision predicates of each path are evaluated over the finite range (<=360 values) of the reduced angle."),
    "C16": dict(level="proof", design="5/C16",
                technique="abstract interpretation with overflow obligations discharged by interval + bounded Farkas entailment; polynomial identity t+v+b == rows",
                text="set_vertical_scroll_region is interpreted for all (top,bottom) in u16^2 and any framebuffer height (generic model): every overflow/underflow assertion is discharged, the single SetScrollArea(t,v,b) satisfies t+v+b == rows identically and passes top/bottom through whenever their sum fits; set_vertical_scroll_offset sends SetScrollStart(offset) unchanged. Serialisation of both commands is C18.",
                note="Trusted: rustc MIR, interpreter, C18. Found and fixed on the pinned tree: u16 overflow of top+bottom (commit 538c7be)."),
    "C10": dict(level="proof", design="5/C10",
                technique="inductive invariant: state-update analysis of set_orientation by abstract interpretation (sent value / stored fields as polynomials), reader and writer inventories over all Display methods",
                text="set_orientation must send SetAddressMode(with_orientation(old, o)), store that value as the cached address mode and store o as options.orientation on success (not on error); orientation() and size() are functions of the stored orientation; every other method leaves options and the cached address mode unchanged. With C14 this makes the state after any sequence equal to that of a fresh build with the last orientation, colour/refresh bits preserved.",
                note="Trusted: rustc MIR, interpreter, C14, C18; subsequent drawing depends on the Display state only (C01/C02/C08). Found and fixed: options.orientation was never stored (commit 8b20831)."),
    "C11": dict(level="other", design="5/C11",
                technique="abstract interpretation of all 14 Model::init bodies (helpers inlined) to event words and symbolic parameter values; gate analysis on the constant DI::KIND; frozen baseline table for 'stays supported'",
                text="Per built-in model, for every interface kind and all option values at once: unsupported kinds return UnsupportedInterface with an empty event word and the supported set contains the frozen baseline; every success path has exactly one sleep-out, no sleep-in, display-on last, address mode / pixel format / inversion sent, no pixel-memory command, constant opcodes and >=120 ms after sleep-out; the address-mode byte sent and returned is the MIPI encoding of the options (polynomial identity), the inversion opcode follows the option, COLMOD's interface bits match the colour type; Builder::init caches exactly the returned value.",
                note="Level 'other': the vendor-specific raw register sequences are not judged, external Model impls are their own obligation. Trusted: rustc MIR, interpreter, C14, C18, opcode table, spec/interface_support.json baseline."),
    "C12": dict(level="fault_enumeration", design="5/C12",
                technique="error-flow analysis over MIR: every fallible hardware/interface event forks into Ok/Err edges; path rules (no event after an Err edge, error value returned in the variant of its source, result never ignored, no panic) checked on all paths of all functions that reach a fallible operation (closed under callers, so the DrawTarget entry points are included)",
                text="Enumerates, on the control-flow graph rather than over runs, every path on which the k-th pin/SPI/bus/interface operation fails - for all k, both transports, every model init and every Display method - and checks that the call returns exactly that error wrapped in the variant naming its source (dc/spi, bus/dc/wr, rst/di), performs no further hardware operation, cannot panic, and that no path drops the result of a fallible operation - neither unread, nor read and then continued the same way whether it failed or not (`op().ok();`), at any level of the call chain; the sleeping flag and options are unchanged on error paths (an error path is an explicit Err or the Result of the last fallible call handed back as it is).",
                note="Trusted: rustc MIR, interpreter. 'Draws correctly after the fault cleared' is reduced to: state read by later calls is unchanged (here) plus the bus-cache rule of C07 and the state-only proofs of C01/C08. What a real controller does with a half-sent command is out of scope."),
    "C05": dict(level="proof", design="5/C05",
                technique="bit-sliced abstract interpretation of each InterfacePixelFormat impl on a symbolic pixel; per-bit polynomial equality with the MIPI DBI encodings; sibling agreement of stream and fill paths",
                text="For the three (colour, bus word) impls the words produced for a symbolic pixel - as canonical polynomials over the channel bits - equal the oracle encoding (RGB565 MSB first / one 16-bit word; RGB666 three left-aligned bytes) on both the per-pixel stream path and the solid-fill path, with count and words-per-pixel passed on unchanged: all 65 536 / 262 144 values at once. COLMOD per model is C11c-pixel-format.",
                note="Trusted: rustc MIR, interpreter, embedded-graphics-core raw layout (cross-checked against the compiler-evaluated RED/GREEN/BLUE constants) and accessor semantics, MIPI DBI formats."),
    "C06": dict(level="other", design="5/C06",
                technique="event-order (typestate) analysis of the SpiInterface bodies, required-flow rule on written slice lengths, per-path conservation rule (pixels pulled vs bytes staged) over the loop's continue and exit paths, loop-progress (ranking) rule and panic-freedom obligations (bounded Farkas plus one product step) under the property's stated precondition",
                text="Decided: send_command's word DC low / [command] / DC high / args with error prefixes; pixel methods never touch DC and only write SPI; every written slice is the part staged in this round (never the whole buffer); every loop progresses - iterator loops consume a finite iterator, the repeat counter loop decreases by an amount entailed >= 1 (this found the zero-count hang); conservation in send_pixels: on every path round the staging loop N x (pixels taken from the caller's stream) equals the bytes added to the staged length plus the bytes written, and no path leaves the loop for the write having taken a pixel it did not stage (core::iter::Zip::next is modelled exactly, so an adaptor that pulls from the stream before finding the buffer full is seen). send_repeated_pixel: the counter starts at count, each round writes N x what it subtracts, the remainder write is N x what is left (total count*N); no assert!/panic! is reachable and every bounds, overflow and unwrap obligation of the two pixel methods is entailed whenever the buffer holds at least one pixel. Not decided: that chunk k carries pixel k (array contents).",
                note="Level 'other' because which bytes sit in which chunk is not decided (counts, order of events and lengths are). Assumes the property's precondition len(buffer) >= N and a buffer shorter than 4 GiB. Found and fixed: count = 0 never terminated (commit d268bb6)."),
    "C07": dict(level="other", design="5/C07",
                technique="DFA over interpreted event traces (loops as fixpoints; every feasible path must be accepted, not merely some path) for the strobe protocol; per-pin polynomial equality for the bus cache invariant; Range trip-count and overflow obligations for the repeat fast path; the zero-count clause by interpretation under the assumption count = 0; the all-words-equal helper by the equalities its returning path has established",
                text="Decided: every word is WR low + bus := word, then WR high; command byte with DC low, DC high before parameters, parameters and pixel words taken from the slice/array in order; per data pin (8 and 16 bit buses) the pin is driven iff the cache is empty or the bit differs, to the bit's level, early return iff the cache equals the value, cache Some(value) only after all pins succeeded and None after any pin failure (inductive step of 'pins show the last value' under arbitrary failures); the all-equal fast path is one full word plus a 1..count*N loop of bare strobes without bus updates, its count arithmetic cannot overflow, a zero repeat count produces no bus traffic, and the helper that selects the fast path answers Some(w) only after comparing every word equal to w.",
                note="Level 'other': the equality of the latched sequence with the word sequence is reduced to these per-step obligations plus the finite-iterator contract; electrical timing out of scope. Found and fixed: u32 overflow of count*N (commit d3566e8)."),
    "C01": dict(level="other", design="5/C01",
                technique="abstract interpretation (affine forms) of the polymorphic window arithmetic per orientation case, decoded through the MIPI MY/MX/MV model and compared with the geometric oracle; bounded Farkas for overflow obligations",
                text="For each of the 8 orientations the column/page arguments emitted by set_pixels are affine forms whose decoding under the orientation's address mode equals, identically in (lx,ly), offset + mirror(rotate_cw(lx,ly)); both corners share the offsets; set_pixel, fill_solid, fill_contiguous hand exactly their logical coordinates (clipped rectangle corners) to that arithmetic, clipping against (0,0,logical w,h); clear is the trait default; the u16 arithmetic cannot wrap and window ends stay inside the framebuffer under I_init. One polymorphic body covers all models (1x1..65535x65535) and transports.",
                note="Level 'other': grouping of batched draw_iter pixels into windows is decided under C03; 'last colour wins / no other cell changes' relies on the controller model plus C08. Trusted: rustc MIR, interpreter, MIPI decode model, C14, C18, C09, e-g-core intersection/bounding_box contracts."),
    "C03": dict(level="other", design="5/C03",
                technique="per-call refinement (simulation) check by abstract interpretation: the transition relations of the two accumulators and of draw_batch are decided on symbolic states with heapless::Vec contents as uninterpreted sequence terms, under the accumulator invariants found by the loop analysis (C08)",
                text="With `batch`: every path of RowIterator::next is first-pixel / append / flush / end-pending / end-empty and satisfies pending(before) ++ [pixel] = emitted ++ pending(after) (an appended pixel's colour is pushed at the end and it sits at (x_left + len, y); a flushed row is handed on unchanged; the pixel that caused the flush starts the next row; the trailing row is emitted at the end of the stream); the same for BlockIterator::next over rows (appended only directly below with identical columns, colours concatenated); draw_batch sends each block once, in order, as its own window with its own colours and nothing else.",
                note="Level 'other': the induction over the stream (bursts read row-major = in-bounds pixels in stream order, each once; last-write-wins) and the controller's row-major fill are argued in DESIGN.md, not mechanised. Relies on C08 (accumulator invariants, framing), C02 (only in-bounds pixels enter the pipeline), C01 (window -> framebuffer cells). Without `batch` draw_iter is set_pixel per item: nothing to decide."),
    "C02": dict(level="other", design="5/C02",
                technique="taint-style sanitiser rule and panic-obligation audit over the interpreted cones of the DrawTarget methods: every value-changing cast / overflow / bounds / unwrap site is an obligation discharged by ranges, bounded Farkas, loop interval invariants and Houdini-style template invariants (P_win)",
                text="For all 8 orientations and both batch settings, with arbitrary i32 coordinates: no caller-supplied coordinate reaches a u16 cast unchecked, every address window ends inside the framebuffer as seen under the address mode (also for the batched pipeline, through template invariants on the accumulators), and every panic site in the cones of draw_iter / fill_contiguous / fill_solid is discharged (skip products by the stated '< 2^32 points' precondition); for fill_contiguous the in-bounds remainder gets exactly the colours it would get unclipped (C04's colour-stream rule, re-decided here).",
                note="Level 'other': 'the in-bounds remainder is drawn exactly as if ...' for batched draw_iter is C03. Errors originate only from interface failures: C12. Found and fixed: unchecked casts in draw_iter, both batch settings (commit 605d72f)."),
    "C04": dict(level="other", design="5/C04",
                technique="path-wise abstract interpretation of fill_contiguous (polynomial identities for the stream-index arithmetic) and of the take/skip iterator's transition relation",
                text="Unclipped rectangles feed the stream directly into take(iw*ih); clipped ones consume exactly (iy-ay)*aw + (ix-ax) colours first on all four guard paths, then take iw and skip aw-iw per row; TakeSkip::next is decided per call (row not exhausted: one colour; exhausted: skip `skip`, yield next, counter := take-1; take=0: None), which by induction is 'colour k on point k'.",
                note="Level 'other': the induction over calls and early-ending streams are argued, not mechanised. Trusted: core Iterator::nth/take contracts, e-g-core intersection contract. 16-bit-pointer helper variants: thorough tier (msp430 facts)."),
    "C08": dict(level="other", design="5/C08",
                technique="DFA over interpreted event traces (loops as fixpoints; every feasible path must be accepted) for the framing language; entailment of start<=end / end-inside-framebuffer; polynomial identity pixel count == window area; for the batched draw_iter, relational loop invariants of the row/block accumulators found by Houdini over type-generated candidates (checked inductively at loop entry and every back edge, equalities eliminated by Gaussian substitution)",
                text="Every drawing entry point (8 orientations, both batch settings) emits only groups CASET RASET RAMWR pixels, error paths being prefixes; for the fill methods, set_pixel and every window group draw_iter emits (batched or not) start <= end and the end is inside the framebuffer; fill_solid's repeat count and fill_contiguous's take limit equal (ex-sx+1)*(ey-sy+1) (on 16-bit targets the limit is a take_while predicate whose admitted count is decided from its body); every block the batched draw_iter flushes carries exactly (x_right-x_left+1)*(y_bottom-y_top+1) colours.",
                note="Level 'other'. The accumulator invariants are derived for two orientations in the quick tier (they do not depend on it) and for all eight, plus the 16-bit-pointer build, in the thorough tier. Four big-endian bytes per address command: C18. That the colours inside a block are the right ones in the right order is decided under C03."),
    "C20": dict(level="other", design="5/C20",
                technique="event counting on interpreted traces (window set-ups per fill, loop depth of SPI writes), capacity constants read from heapless::Vec type arguments, path-infeasibility rule on the row accumulator's next() under the stated in-bounds precondition, relational loop invariant (conserved quantity) plus entailment for the SPI transaction bound",
                text="Exactly one CASET/RASET/RAMWR per successful fill_solid / fill_contiguous and none in a loop (clear is the default); with batch, draw_iter never falls back to single-pixel bursts and 2 <= row capacity <= block capacity; the row accumulator hands a row on, while pixels keep coming, only on paths where 'the pixel just pulled is the right-hand neighbour on the same line and the row is not full' is infeasible (so a run is cut only at the capacity); no SPI write sits in the per-pixel staging loop; the SPI transaction bound of send_pixels: every write after which more pixels are taken from the stream carries exactly N*floor(len/N) bytes, hence at most floor(b/usable)+1 transactions (from the loop invariant 'staged bytes = N x chunks handed out', a conserved quantity found by Houdini, and the exact count of the ChunksExact iterator).",
                note="Level 'other': the bound is decided for send_pixels (send_repeated_pixel's burst sizes follow from C06's telescoping rule); the merging of rows into blocks is not decided (the property does not require it). A transport that flushes from inside a single per-pixel loop is reported as not provably full (it would need a modular invariant on the staged length). The row rule names the accumulator's fields x_left / x_right / y (the property's own anchors) and fails closed if they are gone."),
}

NOT_APPLICABLE = {
    "C19": "a property of the rendered picture (pixel-exact frame, colour regions, asymmetry) as a function of target size through embedded-graphics primitives whose bodies are outside the analysed crate; nothing picture-level is visible in the shape of the code",
}


def main():
    checks = []
    for pid in sorted(CHECKS):
        c = CHECKS[pid]
        checks.append({
            "property_id": pid,
            "quick_cmd": "bin/check %s --tier quick" % pid,
            "thorough_cmd": "bin/check %s --tier thorough" % pid,
            "evidence_file": "/verif/evidence/%s.json" % pid,
            "replay_cmd_template": "bin/check %s --replay {path}" % pid,
            "engine": "mirfacts+aim",
            "level_claimed": {"category": c["level"], "text": c["text"], "design_ref": "DESIGN.md section " + c["design"]},
            "level_note": c["note"],
            "technique": c["technique"],
        })
    all_ids = ["C%02d" % i for i in range(1, 21)]
    na = []
    for pid in all_ids:
        if pid in CHECKS:
            continue
        na.append({"property_id": pid, "reason": NOT_APPLICABLE.get(pid, "not yet claimed: the static rule for this property is not implemented in this revision")})
    m = {
        "version": 1,
        "setup_cmd": "bin/setup.sh",
        "hooks": {"guard": "none (static analysis needs no instrumentation of /repo)", "enable": "n/a: checks read /repo's working tree through the compiler (cargo +nightly check with a rustc_private wrapper)",
                  "baseline_off_cmd": "cd /repo && cargo test --workspace --no-fail-fast --offline", "source_commits": [], "add_only": True},
        "engines": [
            {"name": "mirfacts", "path": "mirfacts/", "serves_properties": sorted(CHECKS), "kind_free_text": "rustc_private driver dumping type-checked MIR, impl/ADT/const tables of /repo per build configuration"},
            {"name": "aim", "path": "sa/", "serves_properties": sorted(CHECKS), "kind_free_text": "abstract interpreter over MIR facts (symbolic polynomials, bit-sliced values, join merging, loop havoc) + per-property rules in sa/rules"},
        ],
        "checks": checks,
        "not_applicable": na,
        "notes": "Static analysis only: no code of /repo is executed by any check. See DESIGN.md.",
    }
    with open(os.path.join(VERIF, "MANIFEST.json"), "w") as f:
        json.dump(m, f, indent=1)


if __name__ == "__main__":
    main()
