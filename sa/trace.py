"""Trace utilities for the rules: event classification, linearisation of merged traces,
regular-language (DFA) checks over trace trees with loops."""
from poly import Poly, ONE, ZERO
from values import IntV, BoolV, Agg, Ptr, SymV
import exec as E

PIN = "embedded_hal::digital::OutputPin"
DELAY = "embedded_hal::delay::DelayNs"
SPI = "embedded_hal::spi::SpiDevice"
IFACE = "mipidsi::interface::Interface"
IPF = "mipidsi::interface::InterfacePixelFormat"
BUS = "mipidsi::interface::parallel::OutputBus"
MODEL = "mipidsi::models::Model"
ITER = "core::iter::traits::iterator::Iterator"

UNIT_NS = {"delay_ns": 1, "delay_us": 1000, "delay_ms": 1000000}


class Sym:
    """classified event"""
    __slots__ = ("cls", "ev", "recv", "op", "params", "ns", "extra", "ops")

    def __init__(self, cls, ev, recv=None, op=None, params=None, ns=None, extra=None, ops=None):
        self.ops = ops
        self.cls = cls
        self.ev = ev
        self.recv = recv
        self.op = op
        self.params = params
        self.ns = ns
        self.extra = extra

    def __repr__(self):
        if self.cls == "CMD":
            return "CMD(%s%s)" % ("0x%02X" % self.op if isinstance(self.op, int) else
                                  ("{" + ",".join("0x%02X" % x for x in sorted(self.ops)) + "}" if self.ops else self.op),
                                  "" if self.params is None else ", %s" % (self.params,))
        if self.cls in ("PIN_LO", "PIN_HI"):
            return "%s(%s)" % (self.cls, self.recv)
        if self.cls == "DELAY":
            return "DELAY(%s ns)" % (self.ns,)
        return "%s(%s)" % (self.cls, self.recv or "")


def classify(ev):
    """Ev -> Sym (or None for notes)"""
    if ev.kind != "call":
        return None
    t, m = ev.trait, ev.method
    recv = ev.names[0] if ev.names else None
    if t == PIN:
        return Sym("PIN_LO" if m == "set_low" else "PIN_HI" if m == "set_high" else "PIN_OTHER", ev, recv)
    if t == DELAY:
        amt = ev.args[1].poly() if len(ev.args) > 1 and isinstance(ev.args[1], IntV) else None
        ns = None
        if amt is not None and m in UNIT_NS:
            c = amt.const_value()
            ns = c * UNIT_NS[m] if c is not None else None
        return Sym("DELAY", ev, recv, ns=ns, extra=amt)
    if t == SPI:
        return Sym("SPI_" + m.upper(), ev, recv)
    if t == IFACE:
        if m == "send_command":
            opv = ev.args[1]
            op = opv.const() if isinstance(opv, IntV) else None
            params = None
            pv = ev.pointees[2] if len(ev.pointees) > 2 else None
            if isinstance(pv, Agg) and pv.kind == "array":
                params = list(pv.fields)
            ops = {op} if op is not None else poly_values(opv.poly() if isinstance(opv, IntV) else None)
            return Sym("CMD", ev, recv, op=op if op is not None else opv, params=params, ops=ops)
        if m == "send_pixels":
            return Sym("PIX", ev, recv)
        if m == "send_repeated_pixel":
            return Sym("REP", ev, recv)
        return Sym("IFACE_" + m, ev, recv)
    if t == "mipidsi::dcs::InterfaceExt" and m == "write_command":
        return Sym("WCMD", ev, recv, extra=ev.args[1] if len(ev.args) > 1 else None)
    if t == "mipidsi::dcs::InterfaceExt" and m == "write_raw":
        opv = ev.args[1]
        op = opv.const() if isinstance(opv, IntV) else None
        return Sym("WRAW", ev, recv, op=op, ops={op} if op is not None else None)
    if t == IPF:
        return Sym("PIX" if m == "send_pixels" else "REP", ev, recv, extra="format")
    if t == BUS:
        return Sym("BUS", ev, recv)
    if t == MODEL and m == "init":
        return Sym("MODEL_INIT", ev, recv)
    if t == ITER:
        return Sym("NEXT" if m == "next" else "ITER_" + m.upper(), ev, recv)
    return Sym("OTHER", ev, recv, extra="%s::%s" % (t, m))


def poly_values(p, limit=8):
    """finite set of values of a polynomial over boolean atoms, or None"""
    if p is None:
        return None
    from poly import is_bool_atom
    atoms = sorted(p.atoms(), key=repr)
    if len(atoms) > limit or not all(is_bool_atom(a) for a in atoms):
        return None
    vals = set()
    for mask in range(1 << len(atoms)):
        asg = {a: (mask >> i) & 1 for i, a in enumerate(atoms)}
        seen = {}
        ok = True
        for a, v in asg.items():
            if a[0] == "var" and v:
                if a[1] in seen:
                    ok = False
                seen[a[1]] = 1
        if ok:
            vals.add(p.subst(asg).const_value())
    return vals


def flatten_events(trace, loops=None, out=None):
    """all Ev objects in a trace tree (Alt alternatives and loop bodies included)"""
    out = [] if out is None else out
    for it in trace:
        if isinstance(it, E.Alt):
            for _, sub in it.alts:
                flatten_events(sub, loops, out)
        elif isinstance(it, E.LoopMark):
            if loops is not None and it.loop_id in loops:
                for c in loops[it.loop_id]["cont"]:
                    flatten_events(c["trace"], loops, out)
        elif isinstance(it, E.Ev):
            out.append(it)
    return out


def linearize(trace, limit=512):
    """expand Alt nodes: -> [(cond poly, [items])] ; LoopMark items are kept in place.
    Raises Undecided beyond `limit` paths (use annotate() / dfa_run() on big merged traces)."""
    paths = [([], [])]
    for it in trace:
        if isinstance(it, E.Alt):
            new = []
            subs = [(c, linearize_raw(sub, limit)) for c, sub in it.alts]
            for c0, items in paths:
                for c, sl in subs:
                    for c2, sub_items in sl:
                        new.append((c0 + [c] + c2, items + sub_items))
                        if len(new) > limit:
                            raise E.Undecided("too many linear paths")
            paths = new
        else:
            for _, items in paths:
                items.append(it)
    out = []
    for cs, items in paths:
        cc = ONE
        for c in cs:
            cc = cc * c
            if cc.const_value() == 0:
                break
        if cc.const_value() == 0:
            continue
        out.append((cc, items))
    return out


def linearize_raw(trace, limit):
    paths = [([], [])]
    for it in trace:
        if isinstance(it, E.Alt):
            new = []
            subs = [(c, linearize_raw(sub, limit)) for c, sub in it.alts]
            for c0, items in paths:
                for c, sl in subs:
                    for c2, sub_items in sl:
                        new.append((c0 + [c] + c2, items + sub_items))
                        if len(new) > limit:
                            raise E.Undecided("too many linear paths")
            paths = new
        else:
            for _, items in paths:
                items.append(it)
    return paths


def annotate(trace, loops=None, conds=(), follower=False, in_loop=False, out=None, known=None, decisions=None, state=None):
    """every event of a trace tree with its context: [{ev, conds, follower, in_loop}].
    follower: some event may follow this one on a path through the tree."""
    out = [] if out is None else out
    # does the tail after position i contain events?
    n = len(trace)
    tail = [False] * (n + 1)
    tail[n] = follower
    for i in range(n - 1, -1, -1):
        it = trace[i]
        has = False
        if isinstance(it, E.Ev):
            has = it.kind == "call"
        elif isinstance(it, E.Alt):
            has = any(_has_events(sub, loops) for _, sub in it.alts)
        elif isinstance(it, E.LoopMark):
            has = loops is not None and it.loop_id in loops and any(_has_events(c["trace"], loops) for c in loops[it.loop_id]["cont"])
        tail[i] = tail[i + 1] or has
    for i, it in enumerate(trace):
        if isinstance(it, E.Ev):
            if it.kind == "call":
                out.append({"ev": it, "conds": conds, "follower": tail[i + 1], "in_loop": in_loop, "known": known,
                            "decisions": decisions, "state": state})
        elif isinstance(it, E.Alt):
            for c, sub in it.alts:
                annotate(sub, loops, conds + (c,), tail[i + 1], in_loop, out, known, decisions, state)
        elif isinstance(it, E.LoopMark):
            if loops is not None and it.loop_id in loops:
                for c in loops[it.loop_id]["cont"]:
                    # inside a loop another iteration (or the code after the loop) may follow
                    annotate(c["trace"], loops, conds, True, True, out, c["state"].facts.known, c["state"].facts.decisions(), c["state"])
    return out


def _has_events(trace, loops):
    for it in trace:
        if isinstance(it, E.Ev) and it.kind == "call":
            return True
        if isinstance(it, E.Alt) and any(_has_events(sub, loops) for _, sub in it.alts):
            return True
        if isinstance(it, E.LoopMark) and loops is not None and it.loop_id in loops and \
                any(_has_events(c["trace"], loops) for c in loops[it.loop_id]["cont"]):
            return True
    return False


def syms_of(items):
    """classified, note-free symbol list of a linear item list (LoopMarks kept as 'LOOP' syms)"""
    out = []
    for it in items:
        if isinstance(it, E.LoopMark):
            out.append(Sym("LOOP", None, recv=it.loop_id))
        elif isinstance(it, E.Ev):
            s = classify(it)
            if s is not None:
                out.append(s)
    return out


def notes_of(trace, loops=None):
    return [e for e in flatten_events(trace, loops) if e.kind == "note"]


# --------------------------------------------------------------------- DFA over trace trees
REJECT = "#reject"


def dfa_run(trace, loops, states, step, facts=None, total=False):
    """propagate a set of DFA states through a trace tree.
    step(state, Sym) -> iterable of successor states (empty = reject).
    Loops: least fixpoint over the recorded continue-paths of the loop.
    total=True: a rejected path is not dropped but ends in the absorbing state REJECT, so that the caller can demand
    that EVERY path is accepted (the set semantics alone answers "is SOME path accepted"). facts: alternatives of a
    merged trace whose condition is false under these facts (paths this outcome did not take) are skipped."""
    cur = set(states)
    for it in trace:
        if isinstance(it, E.Alt):
            nxt = set()
            for c_, sub in it.alts:
                if facts is not None and facts.simplify(c_).const_value() == 0:
                    continue
                nxt |= dfa_run(sub, loops, cur, step, facts, total)
            cur = nxt
        elif isinstance(it, E.LoopMark):
            body = loops.get(it.loop_id, {"cont": []})["cont"]
            seen = set(cur)
            work = set(cur)
            while work:
                new = set()
                for c in body:
                    new |= dfa_run(c["trace"], loops, work, step, None, total)
                work = new - seen
                seen |= new
            cur = seen
        elif isinstance(it, E.Ev):
            s = classify(it)
            if s is None:
                continue
            nxt = set()
            for q in cur:
                if q == REJECT:
                    nxt.add(REJECT)
                    continue
                r = set(step(q, s))
                if not r and total:
                    r = {REJECT}
                nxt |= r
            cur = nxt
    return cur


def where(ev):
    return ev.where() if ev is not None else None
