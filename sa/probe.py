"""developer tool: run the interpreter on one body and print its outcomes"""
import sys, time
sys.path.insert(0, '/verif/sa')
import facts, exec as E, summaries


def show_trace(tr, ind="      "):
    for it in tr:
        if isinstance(it, E.Alt):
            print(ind + "ALT")
            for c, sub in it.alts:
                print(ind + "  when %r:" % (c,))
                show_trace(sub, ind + "    ")
        else:
            print(ind + repr(it))


def main():
    cfg, pat = sys.argv[1], sys.argv[2]
    F = facts.load(cfg)
    recs = [b for b in F.bodies.values() if pat in b["id"] or pat in b["pretty"]]
    for rec in recs:
        ex = E.Executor(F, summaries.Summaries())
        t0 = time.time()
        print("=== %s [%s]" % (rec["id"], rec["pretty"]))
        try:
            res = ex.run_entry(rec)
        except E.Undecided as e:
            print("UNDECIDED:", e)
            import traceback; traceback.print_exc(limit=-6)
            continue
        print("  %d outcomes, %.2fs, cone=%d" % (len(res.outcomes), time.time() - t0, len(res.cone)))
        for o in res.outcomes:
            print("  -", o.kind, (repr(o.value)[:400] if o.kind == "return" else {k: v for k, v in o.info.items() if k not in ("stack",)}))
            if "-q" not in sys.argv:
                print("      facts:", ", ".join("%r=%s" % (p, v) for p, v in o.state.facts.decisions()[:14]))
                show_trace(o.state.trace)
        for lid, l in res.loops.items():
            print("  loop", lid, "havoc:", l["havoc"])
            for c in l["cont"]:
                print("     cont:")
                show_trace(c["trace"], "        ")
        for n in res.notes:
            print("  NOTE", n["what"], n.get("key"), n["fn"], n["span"]["line"])


main()
