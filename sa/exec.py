"""AIM: abstract interpreter over MIR facts (engines E1/E3/E4/E5 of DESIGN.md share it).

Path-sensitive, interprocedural by inlining crate-local bodies (with generic substitution and
impl selection), if-then-else merging at immediate post-dominators, loops by havoc-to-fixpoint
(never unrolled).  Calls that stay abstract (trait methods on type parameters) become events.
Nothing of /repo is executed: the interpreter folds MIR over symbolic values.
"""
import os
import sys
import tys as T
from poly import (Poly, ZERO, ONE, sym_int, sym_bool, b_not, b_and, b_or, b_xor, ge0, eq0,
                  cmp_lt, cmp_le, cmp_eq, bits_of_const, bits_to_poly, is_bool_atom, register_range)
from values import (IntV, BoolV, Agg, SymV, Ptr, FnV, ITE, Term, Undef, UNITV, vkey, veq, mk_ite)
from state import State, Facts
from cfg import cfg_of, EXIT

sys.setrecursionlimit(100000)


class TyBox:
    """hashable wrapper of a type (path steps must be hashable)"""
    __slots__ = ("ty", "_k")

    def __init__(self, ty):
        self.ty = ty
        self._k = T.tkey(ty)

    def __hash__(self):
        return hash(self._k)

    def __eq__(self, o):
        return isinstance(o, TyBox) and self._k == o._k

    def __repr__(self):
        return T.tstr(self.ty)


class Undecided(Exception):
    """the analysis cannot decide (fail closed)"""


class Ev:
    """an abstract call left in the trace (hardware / trait-boundary event or note)"""
    __slots__ = ("kind", "trait", "method", "self_ty", "gargs", "args", "ret", "fn", "span", "stack", "info",
                 "pointees", "names")

    def __init__(self, kind, trait=None, method=None, self_ty=None, gargs=None, args=(), ret=None, fn=None,
                 span=None, stack=(), info=None, pointees=(), names=()):
        self.pointees = tuple(pointees)
        self.names = tuple(names)
        self.kind = kind
        self.trait = trait
        self.method = method
        self.self_ty = self_ty
        self.gargs = gargs
        self.args = tuple(args)
        self.ret = ret
        self.fn = fn
        self.span = span
        self.stack = tuple(stack)
        self.info = info

    def where(self):
        sp = self.span or {}
        return "%s:%s" % (sp.get("file", "?"), sp.get("line", "?"))

    def __repr__(self):
        if self.kind == "call":
            parts = []
            for i, a in enumerate(self.args):
                if i < len(self.names) and self.names[i]:
                    s = "&" + self.names[i]
                    if i < len(self.pointees) and isinstance(self.pointees[i], Agg) and self.pointees[i].kind == "array":
                        s += "=" + repr(self.pointees[i])
                    parts.append(s)
                else:
                    parts.append(repr(a))
            return "%s::%s(%s) @%s" % ((self.trait or "?").split("::")[-1], self.method, ", ".join(parts), self.where())
        return "%s %s @%s" % (self.kind, self.info, self.where())


class Alt:
    """merged alternatives: list of (condition poly, [trace items])"""
    __slots__ = ("alts",)

    def __init__(self, alts):
        self.alts = alts

    def __repr__(self):
        return "Alt(%s)" % " | ".join("%r: %r" % (c, t) for c, t in self.alts)


class LoopMark:
    __slots__ = ("loop_id",)

    def __init__(self, loop_id):
        self.loop_id = loop_id

    def __repr__(self):
        return "Loop(%s)" % (self.loop_id,)


class Outcome:
    __slots__ = ("kind", "state", "value", "info")

    def __init__(self, kind, state, value=None, info=None):
        self.kind = kind
        self.state = state
        self.value = value
        self.info = info


class Frame:
    __slots__ = ("fid", "rec", "body", "subst", "cfg", "fn_id", "depth", "active_loops", "stack", "names", "inline_counts")

    def __init__(self, fid, rec, body, subst, depth, stack):
        self.fid = fid
        self.rec = rec
        self.names = None
        self.inline_counts = None
        self.body = body
        self.subst = subst
        self.cfg = cfg_of(body)
        self.fn_id = rec["id"]
        self.depth = depth
        self.active_loops = set()
        self.stack = stack


MAX_DEPTH = 40
MAX_PATHS = 20000


class Executor:
    def __init__(self, facts, summaries=None, inline_filter=None):
        self.F = facts
        self.pbits = facts.pointer_bits
        self.counter = 0
        self.terminated = []      # Outcome list (panic / dead / diverge) of the current entry run
        self.loops = {}           # loop_id -> {"cont": [trace suffixes], "fn":..., "header":...}
        self.notes = []           # unknown calls etc.
        self.summaries = summaries
        self.inline_filter = inline_filter
        self.dry = 0
        self.write_log = None
        self.paths = 0
        self.called = set()       # def ids of bodies inlined (cone)
        self.alias_defs = {}
        self.const_mem = {}
        self.frames = {}
        self.root_types = {}
        self.discharged = 0
        self.back_states = None
        self.templates = []            # template invariants: functions poly -> poly (candidate facts t(v) >= 0)
        self._cand_cache = {}
        self.conserved_coeffs = []     # rule option: coefficients c for the loop-invariant candidates "a + c*b keeps its entry value"
        self.prod_attempts = 0
        self.product_step = False      # rule option: try one product step (N * count <= len ...) before recording a possible panic
        self.merge_returns = not os.environ.get("VERIF_NO_MERGE_RETURNS")      # join the return paths of an inlined helper that has more than two of them
        self.unroll = None             # (loop id, [back-edge states]) while a loop of known length is being expanded
        self.keep_dead_entry_locals = False   # rules that read a local of the entry function at its return
        self.result_facts = None       # fn(trait, method, result symbol name) -> [poly >= 0] assumed about an abstract call's result
        self.weak_cands = {}           # ADT def -> candidate indices some loop's Houdini run has refuted (not re-tried at merges)
        self.struct_templates = {}     # ADT def -> fn({field name: value}) -> [(guard 0/1 poly | None, poly >= 0)]
        self.no_merge = False          # keep every path separate (used for path-wise summaries)
        self.abstract_defs = set()     # crate bodies deliberately kept abstract (layered proofs)

    # ================================================================ naming / symbols
    def fresh(self, base):
        self.counter += 1
        return "%s#%d" % (base, self.counter)

    def ibits(self, t):
        return T.int_ty(t, self.pbits)

    def mk_sym(self, ty, name):
        """symbolic value of type ty named `name` (eagerly shaped for ints, bools, tuples, small arrays, refs)"""
        k = ty.get("k")
        if k == "int":
            b, s = self.ibits(ty)
            return IntV(b, s, p=sym_int(name, b, s))
        if k == "bool":
            return BoolV(sym_bool(name))
        if k == "tuple":
            return Agg("tuple", None, None, [self.mk_sym(t, "%s.%d" % (name, i)) for i, t in enumerate(ty["tys"])], ty)
        if k == "array" and ty["len"].get("k") == "const" and int(ty["len"]["val"]) <= 64:
            n = int(ty["len"]["val"])
            return Agg("array", None, None, [self.mk_sym(ty["ty"], "%s[%d]" % (name, i)) for i in range(n)], ty)
        if k in ("ref", "ptr"):
            pty = ty["ty"]
            meta = None
            if pty.get("k") in ("slice", "str"):
                meta = IntV(self.pbits, False, p=sym_int("len(%s)" % name, self.pbits, False))
            self.root_types[("O", "*" + name)] = pty
            return Ptr(("O", "*" + name), (), meta, pty, bool(ty.get("mut")))
        if k == "fndef":
            return FnV(ty["fn"])
        if k == "never":
            return Undef
        return SymV(ty, name)

    # ================================================================ ADT helpers
    def adt(self, def_id):
        a = self.F.adts.get(def_id)
        if a is None:
            raise Undecided("no ADT table entry for %s" % def_id)
        return a

    def adt_field_tys(self, ty, variant):
        """field types of variant `variant` of adt type `ty` (generic args substituted)."""
        a = self.adt(ty["def"])
        names = [p["name"] for p in a["generics"]["params"]]
        m = dict(zip(names, ty["args"]))
        v = a["variants"][variant]
        return [(f["name"], T.subst(f["ty"], m)) for f in v["fields"]]

    def expand_sym(self, v, variant=None):
        """expand a SymV of struct / enum-variant type into an Agg of symbolic fields."""
        ty = v.ty
        k = ty.get("k")
        if k == "adt":
            a = self.adt(ty["def"])
            if a["kind"] == "struct":
                fs = self.adt_field_tys(ty, 0)
                return Agg("adt", ty["def"], 0, [self.mk_sym(ft, "%s.%s" % (v.name, fn)) for fn, ft in fs], ty)
            if a["kind"] == "enum" and variant is not None:
                fs = self.adt_field_tys(ty, variant)
                vn = a["variants"][variant]["name"]
                return Agg("adt", ty["def"], variant,
                           [self.mk_sym(ft, "%s@%s.%s" % (v.name, vn, fn)) for fn, ft in fs], ty)
        if k == "closure":
            ups = ty.get("upvars", [])
            return Agg("closure", ty["def"], None, [self.mk_sym(t, "%s.up%d" % (v.name, i)) for i, t in enumerate(ups)], ty)
        return None

    def discr_poly(self, v, facts):
        """discriminant of a value as a Poly (over variant-indicator atoms for symbolic enums)."""
        if isinstance(v, Agg) and v.kind == "adt":
            a = self.adt(v.name)
            if a["kind"] != "enum":
                return ZERO
            return Poly.const(int(a["variants"][v.variant]["discr"]))
        if isinstance(v, SymV) and v.ty.get("k") == "adt":
            a = self.adt(v.ty["def"])
            if a["kind"] != "enum":
                return ZERO
            n = len(a["variants"])
            if n == 0:
                raise Undecided("discriminant of uninhabited enum")
            d0 = int(a["variants"][0]["discr"])
            p = Poly.const(d0)
            for i in range(1, n):
                p = p + (int(a["variants"][i]["discr"]) - d0) * Poly.atom(("var", v.name, i, n))
            return p
        if isinstance(v, ITE):
            return v.c * self.discr_poly(v.a, facts) + (ONE - v.c) * self.discr_poly(v.b, facts)
        if isinstance(v, IntV):
            return v.poly()
        raise Undecided("discriminant of %r" % (v,))

    def variant_cond(self, v, variant):
        """0/1 poly: value v is variant `variant`"""
        if isinstance(v, Agg) and v.kind == "adt":
            return ONE if v.variant == variant else ZERO
        if isinstance(v, SymV) and v.ty.get("k") == "adt":
            a = self.adt(v.ty["def"])
            n = len(a["variants"])
            if variant == 0:
                p = ONE
                for i in range(1, n):
                    p = p - Poly.atom(("var", v.name, i, n))
                return p
            return Poly.atom(("var", v.name, variant, n))
        if isinstance(v, ITE):
            return v.c * self.variant_cond(v.a, variant) + (ONE - v.c) * self.variant_cond(v.b, variant)
        raise Undecided("variant test of %r" % (v,))

    # ================================================================ memory
    def root_value(self, st, root, pty=None):
        v = st.mem.get(root)
        if v is None and root in self.const_mem:
            return self.const_mem[root]
        if v is None:
            if root[0] == "O":
                rty = self.root_types.get(root)
                if rty is None:
                    raise Undecided("unmaterialised object %s without type" % (root,))
                v = self.mk_sym(rty, root[1])
                st.mem[root] = v
            else:
                return Undef
        return v

    def step_read(self, st, v, step):
        """project one path step out of a value"""
        if isinstance(v, ITE):
            return mk_ite(v.c, self.step_read(st, v.a, step), self.step_read(st, v.b, step))
        if v is Undef:
            return Undef
        k = step[0]
        if k == "f":
            if isinstance(v, SymV):
                e = self.expand_sym(v)
                if e is None:
                    return self.mk_sym(step[2].ty, "%s.%d" % (v.name, step[1])) if len(step) > 2 and step[2] else Undef
                v = e
            if isinstance(v, Agg):
                if step[1] < len(v.fields):
                    return v.fields[step[1]]
                return Undef
            if isinstance(v, Term) and len(step) > 2 and step[2] is not None:
                return self.term_field(v, step[1], step[2].ty)
            raise Undecided("field %s of %r" % (step[1], v))
        if k == "d":
            if isinstance(v, SymV):
                e = self.expand_sym(v, step[1])
                if e is None:
                    raise Undecided("downcast of %r" % (v,))
                return e
            if isinstance(v, Agg):
                return v if v.variant == step[1] else Undef
            raise Undecided("downcast of %r" % (v,))
        if k == "i":
            idx = step[1]
            if isinstance(v, Agg) and v.kind == "array":
                return v.fields[idx] if idx < len(v.fields) else Undef
            if isinstance(v, SymV):
                ety = v.ty.get("ty")
                if ety is None:
                    raise Undecided("index into %r" % (v,))
                return self.mk_sym(ety, "%s[%d]" % (v.name, idx))
            raise Undecided("index of %r" % (v,))
        if k == "ix":
            # symbolic index: opaque element
            if isinstance(v, Agg) and v.kind == "array" and v.fields:
                ety = (v.ty or {}).get("ty")
                if all(veq(f, v.fields[0]) for f in v.fields):
                    return v.fields[0]
                if ety is not None:
                    return self.mk_sym(ety, self.fresh("elem"))
            if isinstance(v, SymV) and v.ty.get("ty") is not None:
                # (the index is part of the element's name: a rule can tell `args[i]` from some other element)
                ix_ = repr(Poly(dict(step[1]))) if len(step) > 1 and step[1] is not None else "?"
                return self.mk_sym(v.ty["ty"], self.fresh("elem(%s)[%s]" % (v.name, ix_)))
            raise Undecided("symbolic index of %r" % (v,))
        if k == "sx":
            if isinstance(v, SymV):
                return SymV(v.ty, "%s[%s..%s]" % (v.name, step[1], step[2]))
            if isinstance(v, Agg) and v.kind == "array":
                ety = (v.ty or {}).get("ty") or T.U8
                return SymV({"k": "slice", "ty": ety}, self.fresh("subslice"))
            raise Undecided("symbolic subslice of %r" % (v,))
        if k == "s":
            if isinstance(v, Agg) and v.kind == "array":
                return Agg("array", None, None, v.fields[step[1]:step[2]], None)
            if isinstance(v, SymV):
                return SymV(v.ty, "%s[%s..%s]" % (v.name, step[1], step[2]))
            raise Undecided("subslice of %r" % (v,))
        raise Undecided("bad path step %r" % (step,))

    def term_field(self, v, i, fty):
        ib = self.ibits(fty)
        name = "%r.%d" % (v, i)
        return self.mk_sym(fty, name)

    def read(self, st, root, path, pty=None):
        v = self.root_value(st, root, pty)
        for step in path:
            v = self.step_read(st, v, step)
        return v

    def step_write(self, st, v, path, new):
        if not path:
            return new
        step = path[0]
        k = step[0]
        if isinstance(v, ITE):
            # write into both alternatives
            return mk_ite(v.c, self.step_write(st, v.a, path, new), self.step_write(st, v.b, path, new))
        if k == "f":
            if isinstance(v, SymV):
                e = self.expand_sym(v)
                if e is None:
                    raise Undecided("write into field of %r" % (v,))
                v = e
            if v is Undef or v is None:
                raise Undecided("write into field of undefined aggregate")
            if isinstance(v, Agg):
                fs = list(v.fields)
                while len(fs) <= step[1]:
                    fs.append(Undef)
                fs[step[1]] = self.step_write(st, fs[step[1]], path[1:], new)
                return Agg(v.kind, v.name, v.variant, fs, v.ty, v.extra)
            raise Undecided("write into field of %r" % (v,))
        if k == "d":
            if isinstance(v, SymV):
                v = self.expand_sym(v, step[1])
            if isinstance(v, Agg):
                return self.step_write(st, v, path[1:], new)
            raise Undecided("write through downcast of %r" % (v,))
        if k == "i":
            if isinstance(v, Agg) and v.kind == "array":
                fs = list(v.fields)
                fs[step[1]] = self.step_write(st, fs[step[1]], path[1:], new)
                return Agg(v.kind, v.name, v.variant, fs, v.ty, v.extra)
            if isinstance(v, SymV):
                return SymV(v.ty, self.fresh(v.name.split("#")[0] + "'"))
            raise Undecided("indexed write into %r" % (v,))
        if k in ("ix", "s", "sx"):
            # symbolic-index or subslice write: the whole array becomes unknown
            if isinstance(v, Agg) and v.kind == "array":
                ty = v.ty
                if ty is None:
                    raise Undecided("havoc of untyped array")
                return self.mk_sym(ty, self.fresh("arr'"))
            if isinstance(v, SymV):
                return SymV(v.ty, self.fresh(v.name.split("#")[0] + "'"))
            raise Undecided("symbolic write into %r" % (v,))
        raise Undecided("bad path step %r" % (step,))

    def write(self, st, root, path, new, pty=None):
        if self.write_log is not None:
            self.write_log.add((root, tuple(path)))
        if not path:
            st.mem[root] = new
            return
        old = self.root_value(st, root, pty)
        st.mem[root] = self.step_write(st, old, tuple(path), new)

    # ================================================================ places
    def place_loc(self, st, fr, place):
        """(root, path, meta, pty) of a place"""
        root = ("L", fr.fid, place["local"])
        path = ()
        meta = None
        pty = None
        for e in place["proj"]:
            k = e["k"]
            if k == "deref":
                pv = self.read(st, root, path, pty)
                pv = self.resolve_ptr(st, pv)
                root, path, meta, pty = pv.root, pv.path, pv.meta, pv.pty
            elif k == "field":
                path = path + (("f", e["i"], TyBox(T.subst(e["ty"], fr.subst))),)
                meta = None
            elif k == "downcast":
                path = path + (("d", e["variant"]),)
            elif k == "index":
                iv = self.read(st, ("L", fr.fid, e["local"]), ())
                c = iv.const() if isinstance(iv, IntV) else None
                if c is not None:
                    path = path + (("i", c),)
                else:
                    path = path + (("ix", iv.poly().key() if isinstance(iv, IntV) else None),)
                meta = None
            elif k == "constindex":
                if e["from_end"]:
                    raise Undecided("from_end constant index")
                path = path + (("i", e["offset"]),)
                meta = None
            elif k == "subslice":
                if e["from_end"]:
                    # `[a, rest @ ..]` / `[.., z]` patterns on a slice: from `from` to `len - to`
                    if meta is None:
                        raise Undecided("from_end subslice of a slice of unknown length")
                    ln = meta.poly() if isinstance(meta, IntV) else None
                    if ln is None:
                        raise Undecided("from_end subslice")
                    c = st.facts.simplify(ln).const_value()
                    base = 0
                    if path and path[-1][0] == "s":
                        base, path = path[-1][1], path[:-1]
                    if c is not None:
                        path = path + (("s", base + e["from"], base + c - e["to"]),)
                    else:
                        if base:
                            raise Undecided("from_end subslice inside a constant subslice")
                        path = path + (("sx", repr(Poly.const(e["from"])), repr(ln - e["to"])),)
                    meta = IntV(self.pbits, False, p=ln - e["from"] - e["to"])
                    continue
                path = path + (("s", e["from"], e["to"]),)
                meta = None
            elif k == "opaquecast":
                pass
            else:
                raise Undecided("projection %s" % k)
        return root, path, meta, pty

    def resolve_ptr(self, st, pv):
        if isinstance(pv, Ptr):
            return pv
        if isinstance(pv, SymV) and pv.ty.get("k") in ("ref", "ptr"):
            return self.mk_sym(pv.ty, pv.name)
        if isinstance(pv, ITE):
            a = self.resolve_ptr(st, pv.a)
            b = self.resolve_ptr(st, pv.b)
            if vkey(a) == vkey(b):
                return a
        raise Undecided("dereference of non-pointer %r" % (pv,))

    def read_place(self, st, fr, place):
        root, path, meta, pty = self.place_loc(st, fr, place)
        return self.read(st, root, path, pty)

    def write_place(self, st, fr, place, val):
        root, path, meta, pty = self.place_loc(st, fr, place)
        self.write(st, root, path, val, pty)

    def local_ty(self, fr, i):
        return T.subst(fr.body["locals"][i]["ty"], fr.subst)

    def place_ty(self, fr, place):
        """static type of a place (best effort)"""
        t = self.local_ty(fr, place["local"])
        for e in place["proj"]:
            k = e["k"]
            if k == "deref":
                t = t.get("ty") if t and t.get("k") in ("ref", "ptr") else None
            elif k == "field":
                t = T.subst(e["ty"], fr.subst)
            elif k in ("index", "constindex"):
                t = t.get("ty") if t else None
            elif k == "subslice":
                t = {"k": "slice", "ty": t.get("ty")} if t else None
            if t is None:
                return None
        return t

    # ================================================================ operands
    def eval_const(self, st, fr, o):
        ty = T.subst(o["ty"], fr.subst)
        k = ty.get("k")
        if "val" in o and k in ("int", "bool", "char"):
            v = int(o["val"])
            if k == "bool":
                return BoolV(Poly.const(v & 1))
            b, s = self.ibits(ty)
            if s and v >= (1 << (b - 1)):
                v -= (1 << b)
            return IntV(b, s, p=Poly.const(v))
        if k == "fndef":
            f = dict(ty["fn"])
            return FnV(f)
        tc = o.get("tyconst")
        if tc is not None:
            tc = T.subst(tc, fr.subst)
            if tc.get("k") == "const":
                b, s = self.ibits(ty)
                return IntV(b, s, p=Poly.const(int(tc["val"])))
            if tc.get("k") == "cparam":
                b, s = self.ibits(ty)
                return IntV(b, s, p=sym_int("const " + tc["name"], b, s))
        u = o.get("uneval")
        if u is not None:
            return self.eval_uneval(st, fr, u, ty)
        if o.get("zst"):
            if k == "tuple" and not ty["tys"]:
                return UNITV
            if k == "adt":
                a = self.adt(ty["def"])
                if a["kind"] == "struct" and not a["variants"][0]["fields"]:
                    return Agg("adt", ty["def"], 0, [], ty)
            if k == "closure":
                return Agg("closure", ty["def"], None, [], ty, extra=fr.subst)
            return self.mk_sym(ty, self.fresh("zst"))
        if "bytes" in o and k in ("ref", "ptr"):
            arr = Agg("array", None, None, [IntV(8, False, p=Poly.const(b)) for b in o["bytes"]],
                      {"k": "array", "ty": T.U8, "len": {"k": "const", "val": len(o["bytes"])}})
            root = ("O", "lit:%s" % bytes(o["bytes"]).decode("utf8", "replace"))
            self.const_mem[root] = arr
            self.root_types[root] = arr.ty
            return Ptr(root, (), IntV(self.pbits, False, p=Poly.const(len(o["bytes"]))), ty.get("ty"), False)
        if "bytes" in o:
            return Agg("array", None, None, [IntV(8, False, p=Poly.const(b)) for b in o["bytes"]],
                       {"k": "array", "ty": T.U8, "len": {"k": "const", "val": len(o["bytes"])}})
        return self.mk_sym(ty, self.fresh("const"))

    def eval_uneval(self, st, fr, u, ty):
        """associated / promoted / named constants"""
        if "promoted" in u:
            pb = fr.rec["promoted"][int(u["promoted"])]
            return self.eval_const_body(fr.rec, pb, fr.subst)
        args = [T.subst(a, fr.subst) for a in u["args"]]
        cont = u.get("container", {})
        if cont.get("kind") == "trait":
            # associated const of a trait: resolve through the impl if Self is known
            self_ty = args[0] if args else None
            self_ty = self.normalize(self_ty)
            if self_ty is not None and T.is_concrete_head(self_ty):
                hit = self.find_impl(cont["trait"], [self_ty] + args[1:])
                if hit is not None:
                    impl, binds = hit
                    for it in impl["items"]:
                        if it.get("trait_item") == u["def"]:
                            c = self.F.consts.get(it["id"])
                            if c is not None:
                                return self.eval_const_item(c, binds)
                for ic in self.F.raw.get("impl_consts", []):
                    if ic["trait_item"] == u["def"] and T.tkey(ic["self_ty"]) == T.tkey(self_ty):
                        b, s = self.ibits(ty)
                        return IntV(b, s, p=Poly.const(int(ic["val"])))
            name = "<%s>::%s" % (T.tstr(self_ty) if self_ty else "?", u.get("name"))
            return self.mk_sym(ty, name)
        c = self.F.consts.get(u["def"])
        if c is not None:
            gen = [p["name"] for p in c["generics"]["params"]]
            return self.eval_const_item(c, dict(zip(gen, args)))
        return self.mk_sym(ty, "const %s" % u["def"])

    def eval_const_item(self, c, subst):
        if "val" in c and "ty" in c:
            ty = T.subst(c["ty"], subst)
            k = ty.get("k")
            if k == "bool":
                return BoolV(Poly.const(int(c["val"]) & 1))
            b, s = self.ibits(ty)
            return IntV(b, s, p=Poly.const(int(c["val"])))
        return self.eval_const_body(c, c["body"], subst)

    def eval_const_body(self, rec, body, subst):
        """evaluate a constant's / promoted's MIR body (straight-line aggregate construction)."""
        st = State()
        self.counter += 1
        fr = Frame(("c", self.counter), rec, body, subst, 0, ())
        saved = (self.terminated, self.dry)
        self.terminated = []
        rets, _ = self.run_blocks(fr, {0: [st]})
        self.terminated, self.dry = saved
        if len(rets) != 1:
            raise Undecided("constant body of %s has %d return paths" % (rec["id"], len(rets)))
        s, v = rets[0]
        # a promoted returns a reference to its temporary: keep the temporaries alive globally
        self.const_mem.update({r: x for r, x in s.mem.items() if r[0] == "L" and r[1] == fr.fid})
        return v

    def operand(self, st, fr, o):
        k = o["k"]
        if k in ("copy", "move"):
            v = self.read_place(st, fr, o["place"])
            return v
        if k == "const":
            return self.eval_const(st, fr, o)
        if k == "runtime_checks":
            return BoolV(ONE if "Overflow" in o.get("s", "") else ZERO)
        raise Undecided("operand kind %s" % k)

    # ================================================================ integers and bits
    def to_int(self, v, facts=None):
        if isinstance(v, IntV):
            return v
        if isinstance(v, BoolV):
            return IntV(1, False, p=v.p)
        raise Undecided("integer expected, got %r" % (v,))

    def poly_to_bits(self, p, width, signed, facts):
        c = p.const_value()
        if c is not None:
            return bits_of_const(c & ((1 << width) - 1), width)
        a = p.is_atom()
        if a is not None:
            if a[0] == "i":
                w, s = a[2], a[3]
                bits = [Poly.atom(("bit", a, i)) for i in range(min(w, width))]
                while len(bits) < width:
                    bits.append(bits[w - 1] if s else ZERO)
                return bits
            if is_bool_atom(a):
                return [p] + [ZERO] * (width - 1)
        atoms = p.atoms()
        if all(is_bool_atom(x) for x in atoms) and len(atoms) <= 10:
            atoms = sorted(atoms, key=repr)
            bits = [ZERO] * width
            n = len(atoms)
            for mask in range(1 << n):
                asg = {atoms[i]: (mask >> i) & 1 for i in range(n)}
                # enum-variant exclusivity
                seen = {}
                ok = True
                for x, val in asg.items():
                    if x[0] == "var" and val:
                        if x[1] in seen:
                            ok = False
                            break
                        seen[x[1]] = x[2]
                if not ok:
                    continue
                val = p.subst(asg).const_value()
                m = ONE
                for x in atoms:
                    m = m * (Poly.atom(x) if asg[x] else (ONE - Poly.atom(x)))
                if not m.terms:
                    continue
                vb = val & ((1 << width) - 1)
                for i in range(width):
                    if (vb >> i) & 1:
                        bits[i] = bits[i] + m
            return bits
        # c * atom with c a power of two, or sums thereof on disjoint ranges: shift
        g = None
        for m, c in p.terms.items():
            tz = (c & -c).bit_length() - 1 if c else 0
            g = tz if g is None else min(g, tz)
        if g:
            q = p.scale_div(1 << g)
            if q is not None:
                lo, hi = q.range(facts)
                if lo is not None and lo >= 0:
                    inner = self.poly_to_bits(q, width, signed, facts)
                    return ([ZERO] * g + inner)[:width]
        # alias: fresh integer standing for the value
        lo, hi = p.range(facts)
        name = self.fresh("alias")
        a = ("i", name, width, signed)
        self.alias_defs[a] = p
        return [Poly.atom(("bit", a, i)) for i in range(width)]

    def bits_cheap(self, p):
        a = p.is_atom()
        if p.const_value() is not None or (a is not None and (a[0] == "i" or is_bool_atom(a))):
            return True
        atoms = p.atoms()
        return all(is_bool_atom(x) for x in atoms) and len(atoms) <= 10

    def int_bits(self, v, facts):
        if v.bv is None:
            v.bv = self.poly_to_bits(v.poly(), v.bits, v.signed, facts)
        return v.bv

    def wrap(self, p, bits, signed, facts, why):
        """value of p reduced into the machine type; exact if the range fits."""
        lo, hi = p.range(facts)
        tlo, thi = (-(1 << (bits - 1)), (1 << (bits - 1)) - 1) if signed else (0, (1 << bits) - 1)
        if lo is not None and hi is not None and lo >= tlo and hi <= thi:
            return IntV(bits, signed, p=p)
        if facts is not None:
            if facts.entails_ge0_split(p - tlo, 2, 2) and facts.entails_ge0_split(thi - p, 2, 2):
                return IntV(bits, signed, p=p)
        # at most one wrap-around on either side (x - 1 of an unsigned x, a + b of two values of the type): the
        # reduced value is p plus / minus 2^bits under a comparison - exact, and later facts can decide the comparison
        span_ = 1 << bits
        if not signed and lo is not None and hi is not None and lo >= tlo - span_ and hi <= thi + span_ and len(p.terms) <= 6:
            v_ = p
            if lo < tlo:
                v_ = v_ + span_ * (ONE - ge0(p - tlo, facts))
            if hi > thi:
                v_ = v_ - span_ * ge0(p - thi - 1, facts)
            return IntV(bits, signed, p=v_)
        # wrapping: go through bits when possible
        bv = self.poly_to_bits(p, bits, signed, facts) if (lo is not None and lo >= 0 and self.bits_cheap(p)) else None
        if bv is not None:
            return IntV(bits, signed, bv=bv)
        name = self.fresh("wrap(%s)" % why)
        a = ("i", name, bits, signed)
        self.alias_defs[a] = ("wrap", p)
        return IntV(bits, signed, p=Poly.atom(a))

    def binop(self, st, fr, op, a, b, span=None):
        facts = st.facts
        # pointer / aggregate comparisons are not supported here
        if op in ("Eq", "Ne") and isinstance(a, BoolV) and isinstance(b, BoolV):
            x = b_xor(a.p, b.p)
            return BoolV(x if op == "Ne" else b_not(x))
        if op in ("BitAnd", "BitOr", "BitXor") and isinstance(a, BoolV) and isinstance(b, BoolV):
            f = {"BitAnd": b_and, "BitOr": b_or, "BitXor": b_xor}[op]
            return BoolV(f(a.p, b.p))
        if isinstance(a, (Agg, SymV, ITE)) or isinstance(b, (Agg, SymV, ITE)):
            if op in ("Eq", "Ne") and isinstance(a, Agg) and isinstance(b, Agg) and a.kind == "adt":
                # C-like enum comparison
                pa, pb = self.discr_poly(a, facts), self.discr_poly(b, facts)
                e = cmp_eq(pa, pb, facts)
                return BoolV(e if op == "Eq" else b_not(e))
            raise Undecided("binop %s on %r, %r" % (op, a, b))
        a = self.to_int(a)
        b = self.to_int(b)
        bits, signed = a.bits, a.signed
        pa, pb = facts.simplify(a.poly()), facts.simplify(b.poly())
        if op in ("Eq", "Ne", "Lt", "Le", "Gt", "Ge"):
            if op == "Eq":
                r = cmp_eq(pa, pb, facts)
            elif op == "Ne":
                r = b_not(cmp_eq(pa, pb, facts))
            elif op == "Lt":
                r = cmp_lt(pa, pb, facts)
            elif op == "Le":
                r = cmp_le(pa, pb, facts)
            elif op == "Gt":
                r = cmp_lt(pb, pa, facts)
            else:
                r = cmp_le(pb, pa, facts)
            return BoolV(r)
        tlo, thi = (-(1 << (bits - 1)), (1 << (bits - 1)) - 1) if signed else (0, (1 << bits) - 1)
        if op in ("AddWithOverflow", "SubWithOverflow", "MulWithOverflow"):
            r = pa + pb if op[0] == "A" else (pa - pb if op[0] == "S" else pa * pb)
            if not signed and op[0] in ("A", "M"):
                # operands of an unsigned type are >= 0: only the upper bound can be exceeded
                ovf = b_not(ge0(Poly.const(thi) - r, facts))
            elif not signed:
                ovf = b_not(ge0(r, facts))
            else:
                ovf = b_or(b_not(ge0(Poly.const(thi) - r, facts)), b_not(ge0(r - tlo, facts)))
            return Agg("tuple", None, None, [IntV(bits, signed, p=r), BoolV(ovf)])
        if op in ("Add", "Sub", "Mul", "AddUnchecked", "SubUnchecked", "MulUnchecked"):
            r = pa + pb if op[0] == "A" else (pa - pb if op[0] == "S" else pa * pb)
            return self.wrap(r, bits, signed, facts, op)
        if op in ("Div", "Rem"):
            ca, cb = pa.const_value(), pb.const_value()
            if ca is not None and cb not in (None, 0):
                if op == "Div":
                    q = abs(ca) // abs(cb)
                    q = q if (ca >= 0) == (cb >= 0) else -q
                    return IntV(bits, signed, p=Poly.const(q))
                r = abs(ca) % abs(cb)
                return IntV(bits, signed, p=Poly.const(r if ca >= 0 else -r))
            name = "%s(%r,%r)" % (op.lower(), pa, pb)
            at = ("t", name)
            if op == "Div" and not signed:
                # floor division of non-negative values: b * (a / b) <= a
                facts.add_fact_ge0(pa - pb * Poly.atom(at))
            lo, hi = pa.range(facts)
            if op == "Div" and lo is not None and lo >= 0 and cb and cb > 0:
                register_range(at, lo // cb, hi // cb)
            elif op == "Div" and lo is not None and lo >= 0 and cb is None:
                blo, bhi = pb.range(facts)
                qlo = 1 if (blo is not None and blo >= 1 and facts.entails_ge0(pa - pb, 2, 2)) else 0
                register_range(at, qlo, hi)
            elif op == "Rem" and lo is not None and lo >= 0 and cb and cb > 0:
                register_range(at, 0, cb - 1)
            else:
                register_range(at, tlo, thi)
            return IntV(bits, signed, p=Poly.atom(at))
        if op in ("BitAnd", "BitOr", "BitXor"):
            xa, xb = self.int_bits(a, facts), self.int_bits(b, facts)
            f = {"BitAnd": b_and, "BitOr": b_or, "BitXor": b_xor}[op]
            return IntV(bits, signed, bv=[f(x, y) for x, y in zip(xa, xb)])
        if op in ("Shl", "Shr", "ShlUnchecked", "ShrUnchecked"):
            k = pb.const_value()
            xa = self.int_bits(a, facts)

            def shifted(kk):
                kk = kk % bits
                if op.startswith("Shl"):
                    return ([ZERO] * kk + xa)[:bits]
                fill = xa[-1] if signed else ZERO
                return xa[kk:] + [fill] * kk
            if k is None:
                # a shift amount that depends on a few bits only (e.g. `x << 2 + (x >> 4)`): if-then-else over its values
                ats = sorted(pb.atoms(), key=repr)
                if not ats or len(ats) > 4 or not all(is_bool_atom(x) for x in ats):
                    raise Undecided("shift by non-constant %r" % (pb,))
                nb = [ZERO] * bits
                for mask in range(1 << len(ats)):
                    asg = {x: (mask >> i) & 1 for i, x in enumerate(ats)}
                    kk = pb.subst(asg).const_value()
                    if kk is None or kk < 0:
                        raise Undecided("shift by non-constant %r" % (pb,))
                    if kk >= bits:
                        raise Undecided("shift amount %d may reach the width of the type (overflow panic in debug builds)" % kk)
                    cond = ONE
                    for x, v in asg.items():
                        cond = cond * (Poly.atom(x) if v else ONE - Poly.atom(x))
                    sh = shifted(kk)
                    nb = [nb[i] + cond * sh[i] for i in range(bits)]
                return IntV(bits, signed, bv=nb)
            return IntV(bits, signed, bv=shifted(k))
        raise Undecided("binop %s" % op)

    def unop(self, st, fr, op, a):
        if op == "Not":
            if isinstance(a, BoolV):
                return BoolV(b_not(a.p))
            a = self.to_int(a)
            return IntV(a.bits, a.signed, bv=[b_not(x) for x in self.int_bits(a, st.facts)])
        if op == "Neg":
            a = self.to_int(a)
            return self.wrap(-a.poly(), a.bits, a.signed, st.facts, "neg")
        if op == "PtrMetadata":
            p = self.resolve_ptr(st, a)
            if p.meta is None:
                return UNITV
            return p.meta
        raise Undecided("unop %s" % op)

    def cast(self, st, fr, kind, v, ty, span=None):
        facts = st.facts
        if kind == "IntToInt":
            tb = self.ibits(ty)
            if tb is None:
                raise Undecided("IntToInt to %s" % T.tstr(ty))
            bits, signed = tb
            if isinstance(v, (Agg, SymV, ITE)):
                v = IntV(64, False, p=self.discr_poly(v, facts))  # C-like enum `as` cast
            v = self.to_int(v)
            p = facts.simplify(v.poly())
            lo, hi = p.range(facts)
            tlo, thi = (-(1 << (bits - 1)), (1 << (bits - 1)) - 1) if signed else (0, (1 << bits) - 1)
            fits = lo is not None and hi is not None and lo >= tlo and hi <= thi
            if not fits and facts.entails_ge0_split(p - tlo, 2, 2) and facts.entails_ge0_split(thi - p, 2, 2):
                fits = True
            if fits:
                r = IntV(bits, signed, p=p)
                if v.bv is not None and bits <= v.bits:
                    r.bv = v.bv[:bits]
                return r
            # value-changing cast: note it (E4 obligation) and wrap
            self.note(st, fr, "lossy_cast", {"from": (v.bits, v.signed), "to": (bits, signed), "value": repr(p),
                                             "range": (lo, hi)}, span)
            if v.bv is None and not self.bits_cheap(p):
                return self.wrap(p, bits, signed, facts, "cast")
            if v.bits >= bits:
                bv = self.int_bits(v, facts)[:bits]
                return IntV(bits, signed, bv=list(bv))
            bv = self.int_bits(v, facts)
            ext = bv[-1] if v.signed else ZERO
            return IntV(bits, signed, bv=(list(bv) + [ext] * bits)[:bits])
        if kind.startswith("PointerCoercion"):
            if "Unsize" in kind and isinstance(v, Ptr):
                pty = ty.get("ty") if ty.get("k") in ("ref", "ptr") else None
                if pty is not None and pty.get("k") == "slice" and v.pty is not None and v.pty.get("k") == "array":
                    ln = v.pty["len"]
                    if ln.get("k") == "const":
                        meta = IntV(self.pbits, False, p=Poly.const(int(ln["val"])))
                    else:
                        meta = IntV(self.pbits, False, p=sym_int("const " + ln.get("name", "?"), self.pbits, False))
                    return Ptr(v.root, v.path, meta, v.pty, v.mut)
                return v
            return v
        if kind in ("PtrToPtr", "Transmute"):
            if isinstance(v, Ptr):
                return v
            return self.mk_sym(ty, self.fresh("transmute"))
        raise Undecided("cast kind %s" % kind)

    def note(self, st, fr, what, info, span):
        if self.dry:
            return
        st.trace.append(Ev("note", fn=fr.fn_id, span=span, stack=fr.stack, info=(what, info)))

    # ================================================================ rvalues / statements
    def rvalue(self, st, fr, rv, dest_ty=None, span=None):
        k = rv["k"]
        if k == "use":
            return self.operand(st, fr, rv["op"])
        if k in ("ref", "rawptr"):
            root, path, meta, pty = self.place_loc(st, fr, rv["place"])
            pt = self.place_ty(fr, rv["place"])
            if pt is not None and pt.get("k") in ("slice", "str") and meta is None:
                # reference to an unsized place whose length we do not know
                meta = IntV(self.pbits, False, p=sym_int(self.fresh("len"), self.pbits, False))
            if k == "ref":
                is_mut = bool(rv.get("mut"))
            else:
                is_mut = "Mut" in rv.get("kind", "")
            return Ptr(root, path, meta, pt, is_mut)
        if k == "cast":
            v = self.operand(st, fr, rv["op"])
            return self.cast(st, fr, rv["kind"], v, T.subst(rv["ty"], fr.subst), span)
        if k == "binop":
            a = self.operand(st, fr, rv["a"])
            b = self.operand(st, fr, rv["b"])
            return self.binop(st, fr, rv["op"], a, b, span)
        if k == "unop":
            return self.unop(st, fr, rv["op"], self.operand(st, fr, rv["a"]))
        if k == "discriminant":
            v = self.read_place(st, fr, rv["place"])
            p = st.facts.simplify(self.discr_poly(v, st.facts))
            b, s = self.ibits(dest_ty) if dest_ty is not None and self.ibits(dest_ty) else (64, True)
            return IntV(b, s, p=p)
        if k == "aggregate":
            ops = [self.operand(st, fr, o) for o in rv["ops"]]
            kk = rv["kind"]
            if kk["k"] == "array":
                return Agg("array", None, None, ops, dest_ty)
            if kk["k"] == "tuple":
                return Agg("tuple", None, None, ops, dest_ty)
            if kk["k"] == "adt":
                return Agg("adt", kk["def"], kk["variant"], ops, dest_ty)
            if kk["k"] == "closure":
                return Agg("closure", kk["def"], None, ops, dest_ty, extra=fr.subst)
            raise Undecided("aggregate kind %s" % kk["k"])
        if k == "repeat":
            v = self.operand(st, fr, rv["op"])
            cnt = T.subst(rv["count"], fr.subst)
            if cnt.get("k") == "const" and int(cnt["val"]) <= 4096:
                return Agg("array", None, None, [v] * int(cnt["val"]), dest_ty)
            return self.mk_sym(dest_ty, self.fresh("repeat"))
        raise Undecided("rvalue kind %s" % k)

    def statement(self, st, fr, s):
        k = s["k"]
        if k == "assign":
            dt = self.place_ty(fr, s["place"])
            v = self.rvalue(st, fr, s["rv"], dt, s.get("span"))
            self.write_place(st, fr, s["place"], v)
        elif k == "setdiscr":
            v = self.read_place(st, fr, s["place"])
            if isinstance(v, Agg):
                self.write_place(st, fr, s["place"], Agg(v.kind, v.name, s["variant"], v.fields, v.ty))
            else:
                raise Undecided("SetDiscriminant on %r" % (v,))
        elif k == "dead":
            if not (self.keep_dead_entry_locals and fr.depth == 0):
                st.mem.pop(("L", fr.fid, s["local"]), None)
        # live / intrinsic(assume) are no-ops for the abstraction

    # ================================================================ control flow
    def feasible(self, st, cond):
        c = st.facts.simplify(cond)
        cv = c.const_value()
        if cv is not None:
            return cv != 0
        if st.facts.implied_false(c):
            return False
        return True

    def switch_conds(self, st, D):
        """discriminant poly -> (dict value -> cond poly) | 'generic', or constant"""
        D = st.facts.simplify(D)
        c = D.const_value()
        if c is not None:
            return None, c
        atoms = D.atoms()
        if all(is_bool_atom(a) for a in atoms) and len(atoms) <= 12:
            atoms = sorted(atoms, key=repr)
            n = len(atoms)
            by_val = {}
            for mask in range(1 << n):
                asg = {atoms[i]: (mask >> i) & 1 for i in range(n)}
                seen = {}
                ok = True
                for x, val in asg.items():
                    if x[0] == "var" and val:
                        if x[1] in seen:
                            ok = False
                            break
                        seen[x[1]] = x[2]
                if not ok:
                    continue
                m = ONE
                for x in atoms:
                    m = m * (Poly.atom(x) if asg[x] else (ONE - Poly.atom(x)))
                if not m.terms:
                    continue
                val = D.subst(asg).const_value()
                by_val[val] = by_val.get(val, ZERO) + m
            return by_val, None
        return "generic", None

    def run_blocks(self, fr, pending, allowed=None, header=None):
        """worklist execution of an acyclic region in reverse post-order with merging at joins.
        pending: {bb: [states]}.  allowed: block set of the loop being executed (None: whole
        function); header: its header.  Returns (returns [(state, value)], exits {bb: [states]})."""
        cfg = fr.cfg
        rpo = cfg.rpo_index
        returns = []
        exits = {}
        first = True
        while pending:
            bb = min(pending, key=lambda b: rpo.get(b, 1 << 30))
            states = pending.pop(bb)
            if bb not in cfg.tail and len(states) > 1 and not self.no_merge:
                states = self.merge_groups(states)
            for st in states:
                if bb in cfg.loop_headers and not (first and bb == header):
                    lret, lexits = self.do_loop(st, fr, bb)
                    returns.extend(lret)
                    for nb, ss in lexits.items():
                        if allowed is not None and nb not in allowed:
                            exits.setdefault(nb, []).extend(ss)
                        elif nb == header:
                            for s2 in ss:
                                self.loop_continue(s2, fr, header)
                        else:
                            pending.setdefault(nb, []).extend(ss)
                    continue
                for s2, nxt, val in self.exec_block(st, fr, bb):
                    if nxt is None:
                        returns.append((s2, val))
                    elif header is not None and nxt == header:
                        self.loop_continue(s2, fr, header)
                    elif allowed is not None and nxt not in allowed:
                        exits.setdefault(nxt, []).append(s2)
                    else:
                        pending.setdefault(nxt, []).append(s2)
            first = False
        return returns, exits

    def exec_block(self, st, fr, bb):
        """execute one basic block. -> [(state, next block | None for return, return value)]"""
        blk = fr.body["blocks"][bb]
        for s in blk["stmts"]:
            self.statement(st, fr, s)
        t = blk["term"]
        k = t["k"]
        if k == "goto":
            return [(st, t["target"], None)]
        if k == "return":
            return [(st, None, st.mem.get(("L", fr.fid, 0), UNITV))]
        if k in ("unreachable", "resume", "terminate"):
            return []
        if k == "drop":
            return [(st, t["target"], None)]
        if k == "switch":
            return [(s, tgt, None) for s, tgt in self.do_switch(st, fr, bb, t)]
        if k == "assert":
            return [(s, t["target"], None) for s in self.do_assert(st, fr, bb, t)]
        if k == "call":
            conts = self.do_call(st, fr, bb, t)
            if t["target"] is None:
                return []
            if len(conts) > 1:
                for i, s in enumerate(conts):
                    self.counter += 1
                    s.lineage = s.lineage + (self.counter,)
            return [(s, t["target"], None) for s in conts]
        raise Undecided("terminator %s in %s" % (k, fr.fn_id))

    def do_assert(self, st, fr, bb, t):
        c = self.operand(st, fr, t["cond"])
        p = c.p if isinstance(c, BoolV) else self.to_int(c).poly()
        p = st.facts.simplify(p)
        good = p if t["expected"] else b_not(p)
        msg = t["msg"]
        info = {"kind": "assert", "what": msg["k"], "op": msg.get("op"), "span": t["span"]}
        for key in ("a", "b", "len", "index"):
            if key in msg:
                try:
                    info[key] = repr(self.operand(st, fr, msg[key]))
                except Undecided:
                    info[key] = "?"
        if not self.obligation(st, fr, good, info):
            return []
        return [st]

    def obligation(self, st, fr, good, info):
        """a condition that must hold or the program panics (overflow, bounds, unwrap, ...).
        Records a panic outcome if it may fail on this path and assumes it afterwards.
        Returns False if the continuing path is infeasible."""
        good = st.facts.simplify(good)
        cv = good.const_value()
        if cv == 1:
            self.discharged += 1
            return True
        bad = b_not(good)
        if cv is None and self.product_step and self.feasible(st, bad):
            # last resort before recording a possible panic: one product step (bounds like N * count <= len)
            from poly import atom_pred_poly
            a_ = good.is_atom()
            n_ = (ONE - good).is_atom()
            goal = None
            if a_ is not None and a_[0] == "ge":
                goal = atom_pred_poly(a_)
            elif n_ is not None and n_[0] == "ge":
                goal = -atom_pred_poly(n_) - 1          # not (q >= 0)  <=>  -q - 1 >= 0
            self.prod_attempts += 1
            if goal is not None and self.prod_attempts <= 3000 and st.facts.entails_ge0_prod(goal):
                self.discharged += 1
                return st.facts.assume(good, 1)
        if cv == 0 or self.feasible(st, bad):
            ps = st.fork()
            if cv == 0 or ps.facts.assume(bad, 1):
                d = {"fn": fr.fn_id, "stack": fr.stack, "cond": repr(good)}
                d.update(info)
                self.terminate("panic", ps, d)
            if cv == 0:
                return False
        else:
            self.discharged += 1
        return st.facts.assume(good, 1)

    def terminate(self, kind, st, info):
        if self.dry:
            return
        self.paths += 1
        if self.paths > MAX_PATHS:
            raise Undecided("path budget exceeded")
        self.terminated.append(Outcome(kind, st, None, info))

    def do_switch(self, st, fr, bb, t):
        """-> [(state, target)] for every feasible edge"""
        dv = self.operand(st, fr, t["discr"])
        if isinstance(dv, BoolV):
            D = dv.p
        elif isinstance(dv, IntV):
            D = dv.poly()
        else:
            D = self.discr_poly(dv, st.facts)
        by_val, cst = self.switch_conds(st, D)
        arms = [(int(v), tgt) for v, tgt in t["arms"]]
        mask = ((1 << dv.bits) - 1) if isinstance(dv, IntV) else None
        if by_val is None:
            for v, tgt in arms:
                if v == cst or (mask is not None and v == (cst & mask)):
                    return [(st, tgt)]
            return [(st, t["otherwise"])]
        edges = []
        if by_val == "generic":
            D = st.facts.simplify(D)
            rest = ONE
            for v, tgt in arms:
                c = cmp_eq(D, Poly.const(v), st.facts)
                edges.append((c, tgt))
                rest = rest * b_not(c)
            edges.append((rest, t["otherwise"]))
        else:
            arm_vals = dict(arms)
            per_tgt = {}
            for val, cond in by_val.items():
                key = val
                if key not in arm_vals and mask is not None and val is not None and val < 0:
                    key = val & mask
                tgt = arm_vals.get(key, t["otherwise"])
                per_tgt[tgt] = per_tgt.get(tgt, ZERO) + cond
            for tgt in [tg for _, tg in arms] + [t["otherwise"]]:
                if tgt in per_tgt:
                    edges.append((per_tgt.pop(tgt), tgt))
        merged = {}
        order = []
        for c, tgt in edges:
            if tgt in merged:
                merged[tgt] = b_or(merged[tgt], c)
            else:
                merged[tgt] = c
                order.append(tgt)
        blocks = fr.body["blocks"]
        feas = []
        for tgt in order:
            c = merged[tgt]
            if blocks[tgt]["term"]["k"] == "unreachable" and not blocks[tgt]["stmts"]:
                continue
            if self.feasible(st, c):
                feas.append((c, tgt))
        if not feas:
            return []
        out = []
        if len(feas) == 1:
            c, tgt = feas[0]
            if st.facts.assume(c, 1):
                out.append((st, tgt))
            return out
        for c, tgt in feas:
            s2 = st.fork()
            if s2.facts.assume(c, 1):
                out.append((s2, tgt))
        return out

    # ================================================================ merging
    def merge_groups(self, states):
        groups = {}
        order = []
        for s in states:
            if s.lineage not in groups:
                groups[s.lineage] = []
                order.append(s.lineage)
            groups[s.lineage].append(s)
        out = []
        for l in order:
            g = groups[l]
            out.append(g[0] if len(g) == 1 else self.merge_states(g))
        return out

    def merge_states(self, group, values=None):
        """if-then-else merge of states standing at the same program point.
        values: optional parallel list of values to merge alongside. Returns state (or (state, value))."""
        logs = [s.facts.log for s in group]
        k = 0
        n = min(len(l) for l in logs)
        while k < n and all((l[k] is logs[0][k]) or (l[k][0] == logs[0][k][0] and l[k][1] == logs[0][k][1] and l[k][2] == logs[0][k][2])
                            for l in logs[1:]):
            k += 1
        conds = []
        for s in group:
            c = ONE
            for (p, val) in s.facts.decisions(k):
                c = c * (p if val else (ONE - p))
            conds.append(c)
        ms = State()
        ms.lineage = group[0].lineage
        ms.facts = Facts.replay(logs[0][:k])
        total = ZERO
        for c in conds:
            total = total + c
        if total.const_value() != 1:
            ms.facts.assume(total, 1)
        # trace: common prefix + alternatives
        traces = [s.trace for s in group]
        j = 0
        m = min(len(t) for t in traces)
        while j < m and all(t[j] is traces[0][j] for t in traces[1:]):
            j += 1
        ms.trace = list(traces[0][:j])
        sufs = [(c, t[j:]) for c, t in zip(conds, traces)]
        if any(suf for _, suf in sufs):
            ms.trace.append(Alt(sufs))
        roots = []
        seen = set()
        for s in group:
            for r in s.mem:
                if r not in seen:
                    seen.add(r)
                    roots.append(r)
        for r in roots:
            vals = [(s.mem[r] if r in s.mem else (self.root_value(s, r) if r[0] == "O" else Undef)) for s in group]
            if all(x is vals[0] or veq(x, vals[0]) for x in vals[1:]):
                ms.mem[r] = vals[0]
                continue
            v = vals[-1]
            for c, x in reversed(list(zip(conds[:-1], vals[:-1]))):
                v = mk_ite(c, x, v)
            ms.mem[r] = v
            self.transfer_leaf_facts(ms, v, vals, group)
        if values is not None:
            v = values[-1]
            for c, x in reversed(list(zip(conds[:-1], values[:-1]))):
                v = mk_ite(c, x, v)
            self.transfer_leaf_facts(ms, v, values, group)
            return ms, v
        return ms

    def transfer_leaf_facts(self, ms, v, vals, group, depth=0):
        """value-level facts that survive a merge: for every integer leaf of the merged value the
        hull of its per-branch ranges (hint) and every template fact t(leaf) >= 0 that each branch
        entails for its own version of the leaf."""
        if depth > 5:
            return
        if isinstance(v, IntV):
            if not all(isinstance(x, IntV) for x in vals):
                return
            los, his = [], []
            for x, s_ in zip(vals, group):
                lo, hi = self.int_range(x, s_.facts)
                los.append(lo)
                his.append(hi)
            if None not in los and None not in his:
                h = (min(los), max(his))
                if v.hint is None or h[0] > v.hint[0] or h[1] < v.hint[1]:
                    v.hint = h if v.hint is None else (max(h[0], v.hint[0]), min(h[1], v.hint[1]))
                # make the hull available to the linear reasoning too
                if v.p is not None or v.bv is not None:
                    pv = v.poly()
                    if pv.const_value() is None and len(pv.terms) > 1:
                        ms.facts.add_fact_ge0(pv - v.hint[0])
                        ms.facts.add_fact_ge0(Poly.const(v.hint[1]) - pv)
            if self.templates and not v.signed and v.bits <= 32:
                pv = v.poly()
                if pv.const_value() is None:
                    for t in self.templates:
                        try:
                            if all(s_.facts.entails_ge0(t(s_.facts.simplify(x.poly())), 2, 1) for x, s_ in zip(vals, group)):
                                ms.facts.add_fact_ge0(t(pv))
                        except Exception:
                            pass
            return
        if isinstance(v, Agg) and all(isinstance(x, Agg) and len(x.fields) == len(v.fields) for x in vals):
            for i, f in enumerate(v.fields):
                self.transfer_leaf_facts(ms, f, [x.fields[i] for x in vals], group, depth + 1)
            if v.kind == "adt" and v.name in self.struct_templates and all(x.name == v.name for x in vals) \
                    and not all(vkey(x) == vkey(vals[0]) for x in vals[1:]):
                # (a struct no branch has touched keeps the facts of the common prefix)
                mc = self.struct_cands(v)
                per = [self.struct_cands(x) for x in vals]
                weak = self.weak_cands.get(v.name, ())
                for ti, (g, q) in enumerate(mc):
                    if ti in weak:
                        continue
                    if all(ti < len(pc) and self.cand_holds(s_.facts, pc[ti][0], pc[ti][1]) for pc, s_ in zip(per, group)):
                        if g is None:
                            ms.facts.add_fact_ge0(q)
                        else:
                            ms.facts.add_conditional(g, q)

    def call_single(self, st, fr, callee, subst, args, dest_ty, span):
        """call that must yield one continuing state: several return paths of the callee are
        merged (if-then-else on their path conditions). Mutates `st`. Returns the value."""
        res = self.call(st, fr, callee, subst, args, dest_ty, span)
        if not res:
            st.dead = True
            return Undef
        if len(res) == 1:
            s2, v = res[0]
        else:
            s2, v = self.merge_states([s for s, _ in res], [x for _, x in res])
        if s2 is not st:
            st.mem, st.facts, st.trace = s2.mem, s2.facts, s2.trace
        return v

    # ================================================================ loops
    def loop_id(self, fr, header):
        return "%s@bb%d/%s" % (fr.fn_id, header, fr.fid)

    def loop_continue(self, st, fr, header):
        if self.unroll is not None and self.unroll[0] == self.loop_id(fr, header):
            self.unroll[1].append(st)
            return
        if self.back_states is not None and self.back_states[0] == self.loop_id(fr, header):
            self.back_states[1].append(st)
        if self.dry:
            return
        lid = self.loop_id(fr, header)
        rec = self.loops[lid]
        idx = None
        for i in range(len(st.trace) - 1, -1, -1):
            it = st.trace[i]
            if isinstance(it, LoopMark) and it.loop_id == lid:
                idx = i
                break
        suffix = st.trace[idx + 1:] if idx is not None else list(st.trace)
        rec["cont"].append({"trace": suffix, "state": st})

    def do_loop(self, st, fr, header):
        """abstract execution of a natural loop: havoc everything the body may write (found by
        dry runs to a fixpoint), with interval invariants for the written integer locations
        (joined over the loop entry and the back edges; widened after a few rounds), then run the
        body once from the header. -> (returns, exits)"""
        lid = self.loop_id(fr, header)
        blocks = fr.cfg.loops[header]
        n_it = self.unroll_count(st, fr, header)
        if n_it is not None:
            r_ = self.try_unroll(st, fr, header, n_it)
            if r_ is not None:
                return r_
        written = set()
        inv = {}
        known_roots = set(self.root_types)
        stable = False
        dropped = set()
        tinv = None
        for _round in range(28):
            probe = st.fork()
            self.havoc(probe, fr, written, lid, inv, tinv)
            log = set()
            saved_log, self.write_log = self.write_log, log
            saved_back, self.back_states = self.back_states, (lid, [])
            self.dry += 1
            try:
                self.run_blocks(fr, {header: [probe]}, blocks, header)
            finally:
                self.dry -= 1
                self.write_log = saved_log
                backs = self.back_states[1]
                self.back_states = saved_back
            new = self.relevant_writes(st, fr, log, known_roots)
            if saved_log is not None:
                saved_log |= log
            new_written = written | new
            if os.environ.get("AIM_DEBUG_LOOP"):
                print("loop", lid, "round", _round, "new writes", sorted(self.describe_loc(r, p_) for r, p_ in new - written)[:8],
                      "inv", {self.describe_loc(r, p_): v for (r, p_), v in list(inv.items())[:6]})
            new_inv = self.join_invariants(st, new_written, inv, backs, _round, dropped)
            prev_tinv = {k_: (set(v_) if isinstance(v_, (set, frozenset)) else v_) for k_, v_ in tinv.items()} if isinstance(tinv, dict) else tinv
            new_tinv = self.template_invariants(st, new_written, backs, tinv)
            tinv = prev_tinv
            if tinv is not None and new_tinv != tinv and set(new_inv) - set(inv):
                # interval invariants for further locations were found only now (a leaf of a struct that was still an
                # unexpanded symbol a round earlier): relational candidates dropped without them are tried again
                new_tinv = tinv
            if os.environ.get("AIM_DEBUG_LOOP") == "3" and new_tinv:
                print("loop", lid.split("::")[-1], "round", _round, "struct-inv", {k[2]: sorted(v) for k, v in new_tinv.items() if k[0] == "S"})
            if new_written == written and new_inv == inv and new_tinv == tinv:
                stable = True
                break
            written, inv, tinv = new_written, new_inv, new_tinv
        if not stable:
            raise Undecided("loop havoc set / invariants did not stabilise in %s" % lid)
        entry_values = {}
        if not self.dry:
            for (r, pth) in written:
                try:
                    saved, self.write_log = self.write_log, None
                    nm_ = self.describe_loc(r, pth)
                    k_ = 2
                    while nm_ in entry_values:
                        nm_ = "%s~%d" % (self.describe_loc(r, pth), k_)
                        k_ += 1
                    entry_values[nm_] = self.read(st, r, pth)
                except Undecided:
                    pass
                finally:
                    self.write_log = saved
        self.havoc(st, fr, written, lid, inv, tinv)
        if not self.dry:
            self.loops[lid] = {"cont": [], "fn": fr.fn_id, "header": header, "entry_values": entry_values, "entry_state": None,
                               "havoc": sorted(self.describe_loc(r, p) for r, p in written),
                               "invariants": {self.describe_loc(r, p): v for (r, p), v in inv.items()},
                               "span": fr.body["blocks"][header]["term"].get("span"), "exits": []}
            st.trace.append(LoopMark(lid))
            self.loops[lid]["entry_state"] = st.fork()
        rets, exits = self.run_blocks(fr, {header: [st]}, blocks, header)
        if not self.dry:
            self.loops[lid]["exits"] = sorted(exits)
        return rets, exits

    MAX_UNROLL = 64

    def unroll_count(self, st, fr, header):
        """a `for` loop over data of known length (a constant table, an array, a constant range, and zip / enumerate
        / chunks of those): the number of items, else None. Such a loop is expanded item by item like the straight-
        line code it abbreviates; every other loop is treated abstractly."""
        if self.summaries is None or not hasattr(self.summaries, "concrete_len"):
            return None
        blk = fr.body["blocks"][header]
        t = blk["term"]
        if t["k"] == "switch":
            # `while let [x, rest @ ..] = rest`: the header tests the length of a slice; if that slice has a known
            # length now, the loop peels it element by element - expand it like a `for` over a table
            probe = st.fork()
            saved, self.write_log = self.write_log, None
            self.dry += 1
            try:
                for s_ in blk["stmts"]:
                    if s_["k"] == "assign" and s_["rv"].get("k") == "unop" and s_["rv"].get("op") == "PtrMetadata":
                        a_ = self.operand(probe, fr, s_["rv"]["operand"] if "operand" in s_["rv"] else s_["rv"]["a"])
                        p_ = self.resolve_ptr(probe, a_)
                        if isinstance(p_.meta, IntV):
                            c_ = probe.facts.simplify(p_.meta.poly()).const_value()
                            if c_ is not None and 0 <= c_ <= self.MAX_UNROLL:
                                return c_
                    self.statement(probe, fr, s_)
            except (Undecided, KeyError, TypeError, AttributeError):
                return None
            finally:
                self.dry -= 1
                self.write_log = saved
            return None
        if t["k"] != "call" or not t["args"]:
            return None
        try:
            fn = t["func"]["ty"]["fn"]
        except (KeyError, TypeError):
            return None
        if fn.get("name") != "next" or (fn.get("container") or {}).get("trait") != "core::iter::traits::iterator::Iterator":
            return None
        probe = st.fork()
        saved, self.write_log = self.write_log, None
        self.dry += 1
        try:
            for s_ in blk["stmts"]:
                self.statement(probe, fr, s_)
            a0 = self.operand(probe, fr, t["args"][0])
            if not isinstance(a0, Ptr):
                return None
            itv = self.read(probe, a0.root, a0.path, a0.pty)
            n = self.summaries.concrete_len(CallCtx(self, fr, fn, {"args": [], "kind": "x"}, [a0], None, t.get("span"), ""), probe, itv)
        except (Undecided, KeyError, TypeError, AttributeError):
            return None
        finally:
            self.dry -= 1
            self.write_log = saved
        if n is None or n > self.MAX_UNROLL:
            return None
        return n

    def try_unroll(self, st, fr, header, n_it):
        lid = self.loop_id(fr, header)
        blocks = fr.cfg.loops[header]
        n_term, loop_keys, n_notes = len(self.terminated), set(self.loops), len(self.notes)
        cur = [st.fork()]
        rets, exits = [], {}
        ok = False
        try:
            for _k in range(n_it + 1):
                saved = self.unroll
                self.unroll = (lid, [])
                try:
                    r_, e_ = self.run_blocks(fr, {header: cur}, blocks, header)
                finally:
                    backs = self.unroll[1]
                    self.unroll = saved
                rets.extend(r_)
                for nb, ss in e_.items():
                    # what leaves the loop in different iterations are different paths of the expanded code:
                    # they must not be merged where they happen to share the block after the loop
                    for s_ in ss:
                        self.counter += 1
                        s_.lineage = s_.lineage + (self.counter,)
                    exits.setdefault(nb, []).extend(ss)
                if not backs:
                    ok = True
                    break
                cur = backs if self.no_merge or len(backs) == 1 else self.merge_groups(backs)
                if len(cur) > 4:
                    break
        except Undecided:
            ok = False
        if not ok:
            del self.terminated[n_term:]
            del self.notes[n_notes:]
            for k_ in list(self.loops):
                if k_ not in loop_keys:
                    del self.loops[k_]
            return None
        return rets, exits

    def struct_fields(self, v):
        # {field name: value}; a field that is itself a plain struct of the crate is flattened (`span.x_left`)
        out = {}

        def walk(x, adt, prefix, depth):
            a = self.F.adts.get(adt)
            if a is None:
                return
            for i, f in enumerate(a["variants"][0]["fields"]):
                if i >= len(x.fields):
                    continue
                fv = x.fields[i]
                t = f["ty"]
                sub = self.F.adts.get(t.get("def")) if t.get("k") == "adt" else None
                if sub is not None and depth < 2 and sub.get("kind") == "struct" and sub["id"].startswith(self.F.crate + "::") \
                        and not t.get("args") and not (sub.get("generics") or {}).get("params"):
                    if isinstance(fv, SymV):
                        fv = self.expand_sym(fv)
                    if isinstance(fv, Agg):
                        walk(fv, t["def"], prefix + f["name"] + ".", depth + 1)
                        continue
                out[prefix + f["name"]] = fv
        walk(v, v.name, "", 0)
        return out

    def struct_leaves(self, root, path, v, out, depth=0):
        if depth > 4 or not isinstance(v, Agg):
            return
        if v.kind == "adt" and v.name in self.struct_templates:
            out.append((root, path, v))
        if v.kind in ("adt", "tuple") and (v.kind == "tuple" or (v.name in self.F.adts and self.F.adts[v.name]["kind"] == "struct")):
            for i, f in enumerate(v.fields):
                self.struct_leaves(root, path + (("f", i, None),), f, out, depth + 1)

    def struct_sites(self, st, written):
        """template structs that contain, or are contained in, a written location"""
        out = []
        seen = set()
        for (root, path) in written:
            for n in range(len(path) + 1):
                try:
                    v = self.read(st, root, path[:n])
                except Undecided:
                    break
                if isinstance(v, SymV) and v.ty.get("k") == "adt" and v.ty.get("def") in self.struct_templates:
                    v = self.expand_sym(v)          # a struct known only as a symbol (standalone analysis of a method)
                if n < len(path):
                    if isinstance(v, Agg) and v.kind == "adt" and v.name in self.struct_templates:
                        key = (root, tuple((s_[0], s_[1]) for s_ in path[:n]))
                        if key not in seen:
                            seen.add(key)
                            out.append((root, path[:n], v))
                else:
                    sl = []
                    self.struct_leaves(root, path, v, sl)
                    for (r, p_, sv) in sl:
                        key = (r, tuple((s_[0], s_[1]) for s_ in p_))
                        if key not in seen:
                            seen.add(key)
                            out.append((r, p_, sv))
        return out

    def simp_struct(self, facts, v, depth=0):
        if isinstance(v, IntV):
            return IntV(v.bits, v.signed, p=facts.simplify(v.poly()), hint=v.hint)
        if isinstance(v, BoolV):
            return BoolV(facts.simplify(v.p))
        if isinstance(v, Agg) and depth < 2 and v.kind in ("adt", "tuple"):
            return Agg(v.kind, v.name, v.variant, [self.simp_struct(facts, f, depth + 1) for f in v.fields], v.ty, v.extra)
        return v

    def mixed_atoms(self, v, out, depth=0):
        """boolean atoms inside the (merged, if-then-else shaped) scalar fields of a struct"""
        if isinstance(v, (IntV, BoolV)):
            pl = v.poly() if isinstance(v, IntV) else v.p
            if pl.is_atom() is None and (ONE - pl).is_atom() is None:
                for a in pl.atoms():
                    if is_bool_atom(a):
                        out.add(a)
        elif isinstance(v, Agg) and depth < 2 and v.kind in ("adt", "tuple"):
            for f in v.fields:
                self.mixed_atoms(f, out, depth + 1)

    def struct_cases(self, facts, v, limit=24):
        """un-merge a struct value: the feasible assignments of the boolean atoms its scalar fields
        are conditional on -> [(facts, specialised struct)]; the value itself if there are too many"""
        cases = []
        work = [(facts, self.simp_struct(facts, v))]
        while work:
            f0, v0 = work.pop()
            ats = set()
            self.mixed_atoms(v0, ats)
            if not ats:
                cases.append((f0, v0))
                if len(cases) > limit:
                    return [(facts, v)]
                continue
            a = sorted(ats, key=repr)[0]
            for val in (1, 0):
                f2 = f0.copy()
                if f2.assume(Poly.atom(a), val):
                    work.append((f2, self.simp_struct(f2, v0)))
            if len(work) > 4 * limit:
                return [(facts, v)]
        return cases

    def cand_holds(self, facts, guard, q):
        if facts.has_fact(guard, q):
            return True
        if guard is None:
            qs = facts.simplify(q)
            lo, hi = qs.range(facts)
            if hi is not None and hi < 0:
                return False
            return facts.entails_ge0(qs, 2, 1, use_eq=True, quick_refute=True) is not None
        g = facts.simplify(guard)
        gv = g.const_value()
        if gv == 0:
            return True
        if gv == 1:
            return facts.entails_ge0(facts.simplify(q), 2, 1, use_eq=True, quick_refute=True) is not None
        # one specialised copy of the facts per guard (kept on the facts object, dropped when it changes)
        ver = (len(facts.lin), len(facts.known), len(facts.cond), len(facts.other))
        gc = getattr(facts, "_gcache", None)
        if gc is None or gc[0] != ver:
            gc = (ver, {})
            facts._gcache = gc
        gk = g.key()
        if gk not in gc[1]:
            f2 = facts.copy()
            gc[1][gk] = f2 if f2.assume(g, 1) else None
        f2 = gc[1][gk]
        if f2 is None:
            return True
        return f2.entails_ge0(f2.simplify(q), 2, 1, use_eq=True, quick_refute=True) is not None

    def struct_cands(self, v):
        k = vkey(v)
        c = self._cand_cache.get(k)
        if c is None:
            try:
                c = self.struct_templates[v.name](self.struct_fields(v))
            except (KeyError, AttributeError, Undecided, TypeError):
                c = []
            if len(self._cand_cache) > 4000:
                self._cand_cache.clear()
            self._cand_cache[k] = c
        return c

    def template_invariants(self, st, written, backs, prev):
        """Houdini over the template facts: (location key -> set of template indices) that hold at
        loop entry and at every back edge of the dry run (assuming the previous candidate set)."""
        if not self.templates and not self.struct_templates and not self.conserved_coeffs:
            return None
        out = {}
        saved, self.write_log = self.write_log, None
        try:
            if self.conserved_coeffs:
                # conserved quantities: for loop-carried integers a, b and a rule-supplied coefficient c, "a + c*b keeps
                # the value it had at loop entry" (e.g. staged bytes + N x chunks left). Houdini from the top: a new
                # candidate is assumed in the next dry run, whose back edges then keep or refute it.
                ql = []
                for (root, path) in sorted(written, key=repr):
                    try:
                        v0 = self.read(st, root, path)
                    except Undecided:
                        continue
                    self.int_leaves(st, root, path, v0, ql)
                ql = [(r, p, v) for (r, p, v) in ql if isinstance(v, IntV)][:8]
                for (ra, pa, va) in ql:
                    for (rb, pb, vb) in ql:
                        if (ra, pa) == (rb, pb):
                            continue
                        for ci, c in enumerate(self.conserved_coeffs):
                            key = ("Q", (ra, tuple(pa)), (rb, tuple(pb)), ci)
                            if prev is not None and key in prev and not prev[key]:
                                out[key] = frozenset()
                                continue
                            ok = True
                            if prev is not None and key in prev:
                                e0 = st.facts.simplify(va.poly() + c * vb.poly())
                                for bs in backs:
                                    try:
                                        xa, xb = self.read(bs, ra, pa), self.read(bs, rb, pb)
                                    except Undecided:
                                        ok = False
                                        break
                                    if not (isinstance(xa, IntV) and isinstance(xb, IntV)):
                                        ok = False
                                        break
                                    d = bs.facts.simplify(xa.poly() + c * xb.poly() - e0)
                                    if d.const_value() == 0:
                                        continue
                                    if bs.facts.entails_ge0(d, 2, 1, use_eq=True, quick_refute=True) is None or \
                                            bs.facts.entails_ge0(-d, 2, 1, use_eq=True, quick_refute=True) is None:
                                        ok = False
                                        break
                            out[key] = frozenset({0}) if ok else frozenset()
                            if os.environ.get("AIM_DEBUG_LOOP") == "5":
                                print("QCAND", self.describe_loc(ra, pa), "+", repr(c), "*", self.describe_loc(rb, pb), "->", ok, "checked" if (prev is not None and key in prev) else "new")
            for (root, path) in written:
                try:
                    v0 = self.read(st, root, path)
                except Undecided:
                    continue
                leaves = []
                if self.templates:
                    self.int_leaves(st, root, path, v0, leaves)
                for (r, p, v) in leaves:
                    if v.signed or v.bits > 32:
                        continue
                    key = (r, tuple((s_[0], s_[1]) for s_ in p))
                    cands = set(range(len(self.templates))) if prev is None or key not in prev else set(prev[key])
                    keep = set()
                    for ti in cands:
                        t = self.templates[ti]
                        ok = st.facts.entails_ge0(t(st.facts.simplify(v.poly())), 2, 1) is not None
                        if ok:
                            for bs in backs:
                                try:
                                    bv = self.read(bs, r, p)
                                except Undecided:
                                    ok = False
                                    break
                                if not isinstance(bv, IntV) or bs.facts.entails_ge0(t(bs.facts.simplify(bv.poly())), 2, 1) is None:
                                    ok = False
                                    break
                        if ok:
                            keep.add(ti)
                    out[key] = frozenset(keep)
            if self.struct_templates:
                case_cache = {}
                for (r, p, sv) in self.struct_sites(st, written):
                    key = ("S", r, tuple((s_[0], s_[1]) for s_ in p))
                    cands0 = self.struct_cands(sv)
                    idxs = set(range(len(cands0))) if prev is None or key not in prev else set(prev[key])
                    keep = set()
                    for ti in idxs:
                        if ti >= len(cands0):
                            continue
                        g, q = cands0[ti]
                        ok = self.cand_holds(st.facts, g, q)
                        # Houdini from the top: a site seen for the first time keeps what holds at loop
                        # entry; the next dry run assumes that set and the back edges prune it. The final
                        # (stable) round re-checks entry and back edges under exactly the kept set.
                        if ok and prev is not None and key in prev:
                            for bs in backs:
                                try:
                                    bv = self.read(bs, r, p)
                                except Undecided:
                                    ok = False
                                    break
                                if isinstance(bv, SymV) and bv.ty.get("def") == sv.name:
                                    bv = self.expand_sym(bv)
                                if not (isinstance(bv, Agg) and bv.name == sv.name):
                                    ok = False
                                    break
                                ck = (id(bs), key)
                                if ck not in case_cache:
                                    case_cache[ck] = [(f_, self.struct_cands(v_)) for f_, v_ in self.struct_cases(bs.facts, bv)]
                                bad = False
                                for f_, bc in case_cache[ck]:
                                    if ti >= len(bc) or not self.cand_holds(f_, bc[ti][0], bc[ti][1]):
                                        bad = True
                                        if os.environ.get("AIM_DEBUG_LOOP") == "4" and ti < len(bc):
                                            print("DROPCASE", sv.name.split("::")[-1], ti, "ncases", len(case_cache[ck]), "guard", bc[ti][0], "q", f_.simplify(bc[ti][1]),
                                                  "\n   lin", [repr(x) for x in f_.lin if x.atoms() & bc[ti][1].atoms()][:14],
                                                  "\n   cond", [(repr(g_), repr(q_)) for g_, q_ in f_.cond if q_.atoms() & bc[ti][1].atoms()][:8])
                                        break
                                bc = self.struct_cands(bv)
                                if bad:
                                    ok = False
                                    if os.environ.get("AIM_DEBUG_LOOP") == "4":
                                        print("DROP", sv.name.split("::")[-1], ti, "guard", bc[ti][0], "q", bc[ti][1], "simp", bs.facts.simplify(bc[ti][1]),
                                              "\n   lin", [repr(f) for f in bs.facts.lin if f.atoms() & bc[ti][1].atoms()][:12],
                                              "\n   cond", [(repr(g_), repr(q_)) for g_, q_ in bs.facts.cond][:8])
                                    break
                        if ok:
                            keep.add(ti)
                        else:
                            self.weak_cands.setdefault(sv.name, set()).add(ti)
                    out[key] = frozenset(keep)
        finally:
            self.write_log = saved
        return out

    def int_range(self, v, facts):
        lo, hi = facts.simplify(v.poly()).range(facts)
        if v.hint is not None:
            lo = v.hint[0] if lo is None else max(lo, v.hint[0])
            hi = v.hint[1] if hi is None else min(hi, v.hint[1])
        return lo, hi

    def int_leaves(self, st, root, path, v, out, depth=0):
        """integer locations inside a written location (structs / tuples are descended)"""
        if depth > 4:
            return
        if isinstance(v, IntV):
            out.append((root, path, v))
        elif isinstance(v, Agg) and v.kind in ("adt", "tuple") and (v.kind == "tuple" or (v.name in self.F.adts and self.F.adts[v.name]["kind"] == "struct")
                                                                       or (v.name or "").startswith("core::slice::chunks_exact")):
            for i, f in enumerate(v.fields):
                self.int_leaves(st, root, path + (("f", i, None),), f, out, depth + 1)

    THRESHOLDS = [0, 1, 2, 3, 7, 15, 16, 31, 49, 50, 63, 99, 100, 127, 255, 256, 1023, 4095, 65534, 65535, 65536,
                  (1 << 31) - 1, (1 << 32) - 1, (1 << 63) - 1, (1 << 64) - 1]

    def join_invariants(self, st, written, inv, backs, rnd, dropped):
        """interval invariant per written integer location: hull of its range at loop entry and
        at every back edge of the dry run."""
        out = {}
        saved, self.write_log = self.write_log, None
        try:
            for (root, path) in written:
                try:
                    v0 = self.read(st, root, path)
                except Undecided:
                    continue
                leaves = []
                self.int_leaves(st, root, path, v0, leaves)
                for (r, p, v) in leaves:
                    key = (r, tuple((s_[0], s_[1]) for s_ in p))
                    lo, hi = self.int_range(v, st.facts)
                    if lo is None or hi is None:
                        continue
                    ok = True
                    for bs in backs:
                        try:
                            bv = self.read(bs, r, p)
                        except Undecided:
                            ok = False
                            break
                        if not isinstance(bv, IntV):
                            ok = False
                            break
                        l2, h2 = self.int_range(bv, bs.facts)
                        if l2 is None or h2 is None:
                            ok = False
                            break
                        lo, hi = min(lo, l2), max(hi, h2)
                    if os.environ.get("AIM_DEBUG_LOOP") == "2":
                        print("   inv-cand", self.describe_loc(r, p), "entry", (lo, hi), "ok", ok, "backs", len(backs))
                    if not ok:
                        continue
                    tlo, thi = (-(1 << (v.bits - 1)), (1 << (v.bits - 1)) - 1) if v.signed else (0, (1 << v.bits) - 1)
                    if key in dropped:
                        continue
                    if key in inv and inv[key] != (lo, hi) and rnd >= 1:
                        # widening with thresholds: a moving bound jumps to the next threshold
                        plo, phi = inv[key]
                        if hi > phi:
                            hi = min([t for t in self.THRESHOLDS if t >= hi] + [thi])
                        if lo < plo:
                            lo = max([-t - 1 for t in self.THRESHOLDS if -t - 1 <= lo] + [tlo]) if lo < 0 else 0
                        if rnd >= 7:
                            # still moving after the thresholds had their chance: no interval for this location
                            dropped.add(key)
                            continue
                    if lo <= tlo and hi >= thi:
                        dropped.add(key)
                        continue
                    out[key] = (max(lo, tlo), min(hi, thi))
        finally:
            self.write_log = saved
        return out

    def relevant_writes(self, st, fr, log, known_roots=()):
        """locations written in the loop that exist outside the loop body's own callee frames"""
        out = set()
        for root, path in log:
            if root[0] == "L" and root[1] != fr.fid and root not in st.mem:
                continue  # local of a frame created inside the loop
            if root[0] == "O" and root not in st.mem and root not in known_roots:
                continue  # object first seen inside the loop (fresh per iteration)
            # a write through a symbolic index / symbolic sub-slice is a write to the whole array (the symbols in
            # the path step are fresh in every dry run and would keep the written set from stabilising)
            for k_, step in enumerate(path):
                if step[0] in ("ix", "sx"):
                    path = tuple(path[:k_])
                    break
            out.add((root, path))
        return out

    def havoc(self, st, fr, written, lid, inv=None, tinv=None):
        # conserved quantities kept by the Houdini run: their entry values, read before anything is havoced
        qkeep = []
        if tinv and self.conserved_coeffs:
            saved_q, self.write_log = self.write_log, None
            try:
                for key, val in tinv.items():
                    if key[0] == "Q" and val:
                        (_, (ra, pa), (rb, pb), ci) = key
                        try:
                            va, vb = self.read(st, ra, pa), self.read(st, rb, pb)
                        except Undecided:
                            continue
                        if isinstance(va, IntV) and isinstance(vb, IntV) and ci < len(self.conserved_coeffs):
                            c = self.conserved_coeffs[ci]
                            qkeep.append((ra, pa, rb, pb, c, st.facts.simplify(va.poly() + c * vb.poly())))
            finally:
                self.write_log = saved_q
        # coarsen: if a prefix is written, drop longer paths
        items = sorted(written, key=lambda rp: len(rp[1]))
        done = []
        inv = inv or {}
        for root, path in items:
            if any(r == root and path[:len(p)] == p for r, p in done):
                continue
            done.append((root, path))
            name = "loop:%s" % (self.loc_name(fr, root, path),)
            saved, self.write_log = self.write_log, None
            try:
                cur = None
                try:
                    if root in st.mem or root in self.const_mem or root[0] == "O":
                        cur = self.read(st, root, path)
                except Undecided:
                    cur = None
                if isinstance(cur, SymV) and cur.ty is not None and cur.ty.get("k") == "adt" and not cur.ty.get("args"):
                    a_ = self.F.adts.get(cur.ty.get("def"))
                    if a_ is not None and a_.get("kind") == "struct" and a_["id"].startswith(self.F.crate + "::"):
                        # a plain struct of the crate still held as one symbol (`self.span`): havoc it field by field so
                        # that the interval invariants of its leaves apply
                        cur = self.expand_sym(cur) or cur
                if cur is not None and cur is not Undef:
                    new = self.havoc_like(cur, name, inv, root, tuple((s_[0], s_[1]) for s_ in path), top=True)
                else:
                    ty = self.local_ty(fr, root[2]) if (root[0] == "L" and root[1] == fr.fid) else None
                    lty = self.loc_type(st, fr, root, path, ty)
                    if lty is None:
                        continue
                    new = self.mk_sym(lty, self.fresh(name))
                try:
                    self.write(st, root, path, new)
                except Undecided:
                    cur = st.mem.get(root)
                    if cur is not None:
                        st.mem[root] = self.havoc_like(cur, name)
                if tinv:
                    leaves = []
                    try:
                        self.int_leaves(st, root, path, self.read(st, root, path), leaves)
                    except Undecided:
                        leaves = []
                    for (r, p_, v_) in leaves:
                        for ti in tinv.get((r, tuple((s_[0], s_[1]) for s_ in p_)), ()):
                            st.facts.add_fact_ge0(self.templates[ti](v_.poly()))
            finally:
                self.write_log = saved
        if qkeep:
            saved, self.write_log = self.write_log, None
            try:
                for (ra, pa, rb, pb, c, e0) in qkeep:
                    try:
                        xa, xb = self.read(st, ra, pa), self.read(st, rb, pb)
                    except Undecided:
                        continue
                    if isinstance(xa, IntV) and isinstance(xb, IntV):
                        d = xa.poly() + c * xb.poly() - e0
                        st.facts.add_fact_ge0(d)
                        st.facts.add_fact_ge0(-d)
            finally:
                self.write_log = saved
        if tinv and self.struct_templates:
            saved, self.write_log = self.write_log, None
            try:
                for (r, p_, sv) in self.struct_sites(st, [rp for rp in done]):
                    keep = tinv.get(("S", r, tuple((s_[0], s_[1]) for s_ in p_)), ())
                    cands0 = self.struct_cands(sv)
                    for ti in keep:
                        if ti < len(cands0):
                            g, q = cands0[ti]
                            if g is None:
                                st.facts.add_fact_ge0(q)
                            else:
                                st.facts.add_conditional(g, q)
            finally:
                self.write_log = saved

    RESULT = "core::result::Result"

    def pick_variant(self, st, v, var):
        """the value v (of an enum type) on the assumption that it is variant `var`: an Agg, or None if infeasible"""
        if isinstance(v, Agg):
            return v if v.variant == var else None
        if isinstance(v, SymV):
            return self.expand_sym(v, var)
        if isinstance(v, ITE):
            cv = st.facts.simplify(v.c).const_value()
            if cv == 1:
                return self.pick_variant(st, v.a, var)
            if cv == 0:
                return self.pick_variant(st, v.b, var)
            return v
        return v

    def split_result(self, st, v, depth=0):
        """a Result handed back as the last fallible call produced it (a symbol, or an if-then-else of such) is split
        into separate Ok / Err outcomes, so that rules see the same outcomes as with `r?; Ok(())`"""
        if depth > 6 or not self._ite_is_result(v) or isinstance(v, Agg):
            return [(st, v)]
        out = []
        if isinstance(v, ITE):
            for val, br in ((1, v.a), (0, v.b)):
                s2 = st.fork()
                if s2.facts.assume(v.c, val):
                    out.extend(self.split_result(s2, br, depth + 1))
            return out or [(st, v)]
        for var in (0, 1):
            try:
                c = self.variant_cond(v, var)
            except Undecided:
                return [(st, v)]
            s2 = st.fork()
            if not s2.facts.assume(c, 1):
                continue
            pv = self.pick_variant(s2, v, var)
            if pv is not None:
                out.append((s2, pv))
        return out or [(st, v)]

    def split_payload_ites(self, st, v, budget=8):
        """an if-then-else nested in the returned value (e.g. Err(if c {A} else {B}) after a helper's two error
        returns were merged) is split into separate outcomes, as if the helper had been written inline"""
        def find(x, depth):
            if depth > 3:
                return None
            if isinstance(x, ITE):
                return ()
            if isinstance(x, Agg) and x.kind in ("adt", "tuple"):
                for i, f in enumerate(x.fields):
                    r = find(f, depth + 1)
                    if r is not None:
                        return (i,) + r
            return None

        def put(x, path, new):
            if not path:
                return new
            fs = list(x.fields)
            fs[path[0]] = put(fs[path[0]], path[1:], new)
            return Agg(x.kind, x.name, x.variant, fs, x.ty, x.extra)

        def get(x, path):
            for i in path:
                x = x.fields[i]
            return x
        work = [(st, v)]
        out = []
        while work:
            s0, v0 = work.pop()
            pth = find(v0, 0) if isinstance(v0, Agg) else None
            if pth is None or len(out) + len(work) >= budget:
                out.append((s0, v0))
                continue
            it = get(v0, pth)
            for val, br in ((1, it.a), (0, it.b)):
                s1 = s0.fork()
                if s1.facts.assume(it.c, val):
                    work.append((s1, put(v0, pth, br)))
        return out

    def _ite_is_result(self, v, depth=0):
        if depth > 8:
            return False
        if isinstance(v, ITE):
            return self._ite_is_result(v.a, depth + 1) and self._ite_is_result(v.b, depth + 1)
        if isinstance(v, Agg):
            return v.kind == "adt" and v.name == self.RESULT
        if isinstance(v, SymV):
            return isinstance(v.ty, dict) and v.ty.get("def") == self.RESULT
        return False

    def closure_env_pure(self, v):
        """does the closure body leave its captured environment unmodified?"""
        rec = self.F.bodies.get(v.name)
        if rec is None:
            return False
        for blk in rec["body"]["blocks"]:
            for s_ in blk["stmts"]:
                if s_["k"] == "assign" and s_["place"]["local"] == 1 and s_["place"]["proj"]:
                    return False
                if s_["k"] == "assign" and s_["rv"]["k"] == "ref" and s_["rv"].get("mut") and s_["rv"]["place"]["local"] == 1:
                    return False
        return True

    def havoc_like(self, v, name, inv=None, root=None, path=(), top=False, origin=False):
        """fresh unknown value of the same shape (struct / tuple / iterator-adaptor structure kept,
        enum variants forgotten); integer leaves get the interval invariant if one is known."""
        if isinstance(v, IntV):
            rng = inv.get((root, path)) if inv and root is not None else None
            if rng is not None:
                return IntV(v.bits, v.signed, p=Poly.atom(("r", self.fresh(name), rng[0], rng[1])))
            return IntV(v.bits, v.signed, p=sym_int(self.fresh(name), v.bits, v.signed))
        if isinstance(v, BoolV):
            return BoolV(sym_bool(self.fresh(name)))
        if isinstance(v, Agg):
            if v.kind == "closure":
                if self.closure_env_pure(v):
                    return v
                return Agg(v.kind, v.name, v.variant, [self.havoc_like(f, "%s.up%d" % (name, i)) for i, f in enumerate(v.fields)], v.ty, v.extra)
            is_struct = v.kind in ("tuple", "array") or (v.kind == "adt" and (
                (v.name in self.F.adts and self.F.adts[v.name]["kind"] == "struct") or v.name.startswith(("core::iter::", "core::slice::", "core::array::"))
                or v.name == "heapless::vec::Vec"))
            if is_struct:
                return Agg(v.kind, v.name, v.variant,
                           [self.havoc_like(f, "%s.%d" % (name, i), inv, root, path + (("f", i),), origin=origin) for i, f in enumerate(v.fields)], v.ty, v.extra)
            if v.ty is not None:
                return self.mk_sym(v.ty, self.fresh(name))
            return Agg(v.kind, v.name, v.variant, [self.havoc_like(f, "%s.%d" % (name, i)) for i, f in enumerate(v.fields)], v.ty, v.extra)
        if isinstance(v, SymV):
            if origin or (v.ty is not None and v.ty.get("k") == "param"):
                # an opaque object changed by a call stays "the same object, later": `colors` becomes `colors'#k`
                base = v.name.split("#")[0]
                return SymV(v.ty, self.fresh(base if base.endswith("'") else base + "'"))
            return SymV(v.ty, self.fresh(name))
        if isinstance(v, ITE):
            return self.havoc_like(v.a, name, inv, root, path, origin=origin)
        if isinstance(v, Ptr):
            # a pointer the loop re-assigns (e.g. `rest = tail`) is unknown at the loop head: an opaque reference to
            # an object of the same type (temporaries re-borrowed in every iteration are written before they are read)
            # (only for a location that itself holds the pointer: a pointer inside an iterator value names the
            # sequence it iterates over, which `next` does not change)
            if top and v.pty is not None:
                tgt = v.pty if v.meta is None or v.pty.get("k") == "slice" else {"k": "slice", "ty": v.pty.get("ty") if v.pty.get("k") == "array" else v.pty}
                return self.mk_sym({"k": "ref", "mut": bool(v.mut), "ty": tgt}, self.fresh(name))
            return v
        if isinstance(v, FnV):
            return v
        if isinstance(v, Term):
            return SymV(v.ty, self.fresh(name)) if v.ty is not None else v
        return v

    def loc_name(self, fr, root, path):
        if root[0] == "O":
            base = root[1]
        else:
            base = "_%s" % (root[2],)
            for d in fr.body.get("debug", []):
                if root[1] == fr.fid and d["place"]["local"] == root[2] and not d["place"]["proj"]:
                    base = d["name"]
        for s in path:
            base += ".%s" % (s[1],) if s[0] == "f" else "@%s" % (s[1],) if s[0] == "d" else "[..]"
        return base

    def loc_type(self, st, fr, root, path, root_ty):
        t = root_ty
        if t is None:
            return None
        for s in path:
            if s[0] == "f":
                t = s[2].ty if len(s) > 2 and s[2] is not None else None
            elif s[0] in ("i", "ix"):
                t = t.get("ty") if t.get("k") in ("array", "slice") else None
            elif s[0] == "d":
                pass
            else:
                return None
            if t is None:
                return None
        return t

    # ================================================================ type normalisation / impl selection
    def normalize(self, t):
        """resolve associated-type projections whose Self type is known through the impl table."""
        if t is None:
            return None
        k = t.get("k")
        if k == "proj":
            args = [self.normalize(a) for a in t["args"]]
            self_ty = args[0] if args else None
            if self_ty is not None and T.is_concrete_head(self_ty) and t.get("trait"):
                hit = self.find_impl(t["trait"], args)
                if hit is not None:
                    impl, binds = hit
                    for it in impl["items"]:
                        if it.get("trait_item") == t["def"] and "ty" in it:
                            return self.normalize(T.subst(it["ty"], binds))
            ci = self.core_iter_item(t, self_ty)
            if ci is not None:
                return ci
            return {"k": "proj", "def": t["def"], "name": t["name"], "trait": t.get("trait"), "args": args}
        if k == "adt":
            return {"k": "adt", "def": t["def"], "args": [self.normalize(a) for a in t["args"]]}
        if k in ("ref", "ptr"):
            return {"k": k, "mut": t["mut"], "ty": self.normalize(t["ty"])}
        if k == "tuple":
            return {"k": "tuple", "tys": [self.normalize(x) for x in t["tys"]]}
        if k == "array":
            return {"k": "array", "ty": self.normalize(t["ty"]), "len": t["len"]}
        if k == "slice":
            return {"k": "slice", "ty": self.normalize(t["ty"])}
        return t

    def core_iter_item(self, t, self_ty):
        """`<X as Iterator>::Item` for the core iterator types whose item type is part of their documented signature
        (needed inside generic code such as the prelude, where the compiler left the projection unnormalised)"""
        if t.get("trait") != "core::iter::traits::iterator::Iterator" or t.get("name") != "Item" or not self_ty or self_ty.get("k") != "adt":
            return None
        d = self_ty["def"]
        ta = [a for a in self_ty.get("args", []) if a.get("k") not in ("lifetime", "const")]
        if d == "core::slice::iter::Iter" and ta:
            return {"k": "ref", "mut": False, "ty": ta[0]}
        if d == "core::slice::iter::IterMut" and ta:
            return {"k": "ref", "mut": True, "ty": ta[0]}
        if d == "core::array::iter::IntoIter" and ta:
            return ta[0]
        if d in ("core::slice::iter::ChunksExact", "core::slice::iter::Chunks") and ta:
            return {"k": "ref", "mut": False, "ty": {"k": "slice", "ty": ta[0]}}
        if d in ("core::slice::iter::ChunksExactMut", "core::slice::iter::ChunksMut") and ta:
            return {"k": "ref", "mut": True, "ty": {"k": "slice", "ty": ta[0]}}
        if d in ("core::ops::range::Range", "core::ops::range::RangeInclusive") and ta:
            return ta[0]
        if d in ("core::iter::adapters::copied::Copied", "core::iter::adapters::cloned::Cloned") and ta:
            inner = self.normalize({"k": "proj", "def": t["def"], "name": "Item", "trait": t["trait"], "args": [ta[0]]})
            return inner["ty"] if inner.get("k") == "ref" else None
        return None

    def find_impl(self, trait, targs):
        """select the crate-local impl of `trait` for trait args `targs` (Self first).
        Returns (impl, bindings of the impl's generics) or None."""
        cands = self.F.impls_by_trait.get(trait, [])
        actual = [a for a in targs if a.get("k") != "lifetime"]
        hits = []
        for impl in cands:
            pats = [a for a in impl["trait_args"] if a.get("k") != "lifetime"]
            if len(pats) != len(actual):
                continue
            binds = {}
            if all(T.unify(p, a, binds) for p, a in zip(pats, actual)):
                hits.append((impl, binds))
        if not hits:
            return None
        if len(hits) > 1:
            # prefer the most specific (fewest bare-parameter self types)
            hits.sort(key=lambda h: 0 if h[0]["self_ty"].get("k") != "param" else 1)
            if hits[0][0]["self_ty"].get("k") == "param" or hits[1][0]["self_ty"].get("k") != "param":
                raise Undecided("ambiguous impl selection for %s" % trait)
        return hits[0]

    def resolve_callee(self, callee, subst):
        """-> dict(kind='body', rec, subst) | dict(kind='abstract', ...) | dict(kind='extern', ...)"""
        args = [self.normalize(T.subst(a, subst)) for a in callee["args"]]
        cont = callee["container"]
        d = callee["def"]
        if cont.get("kind") == "trait":
            trait = cont["trait"]
            tr = self.F.traits.get(trait)
            ntr = len(tr["generics"]["params"]) if tr else 1
            targs = args[:ntr]
            margs = args[ntr:]
            self_ty = targs[0]
            if T.is_concrete_head(self_ty):
                hit = self.find_impl(trait, targs)
                if hit is not None:
                    impl, binds = hit
                    for it in impl["items"]:
                        if it.get("trait_item") == d:
                            rec = self.F.bodies.get(it["id"])
                            if rec is None:
                                break
                            gp = rec["generics"]["params"]
                            pc = int(rec["generics"]["parent_count"])
                            m = {}
                            for p in gp[:pc]:
                                if p["name"] in binds:
                                    m[p["name"]] = binds[p["name"]]
                            for p, a in zip(gp[pc:], margs):
                                m[p["name"]] = a
                            return {"kind": "body", "rec": rec, "subst": m, "args": args, "trait": trait, "self_ty": self_ty}
                    # provided method of a local trait
                    rec = self.F.bodies.get(d)
                    if rec is not None:
                        gp = rec["generics"]["params"]
                        return {"kind": "body", "rec": rec, "subst": {p["name"]: a for p, a in zip(gp, args)},
                                "args": args, "trait": trait, "self_ty": self_ty}
                # closures / fn items called through Fn* traits
                if trait.startswith("core::ops::function::Fn"):
                    return {"kind": "fncall", "args": args, "trait": trait, "self_ty": self_ty}
                return {"kind": "extern", "args": args, "trait": trait, "self_ty": self_ty}
            # Self is abstract.  A provided method of a crate-local trait with a blanket impl
            # (InterfaceExt) still has one body.
            rec = self.F.bodies.get(d)
            if rec is not None and tr is not None and tr.get("local"):
                impls = self.F.impls_by_trait.get(trait, [])
                overridden = any(any(it.get("trait_item") == d for it in i["items"]) for i in impls)
                if not overridden:
                    gp = rec["generics"]["params"]
                    return {"kind": "body", "rec": rec, "subst": {p["name"]: a for p, a in zip(gp, args)},
                            "args": args, "trait": trait, "self_ty": self_ty}
            if trait.startswith("core::ops::function::Fn") and self_ty.get("k") in ("closure", "fndef"):
                return {"kind": "fncall", "args": args, "trait": trait, "self_ty": self_ty}
            return {"kind": "abstract", "args": args, "trait": trait, "self_ty": self_ty}
        rec = self.F.bodies.get(d)
        if rec is not None:
            gp = rec["generics"]["params"]
            return {"kind": "body", "rec": rec, "subst": {p["name"]: a for p, a in zip(gp, args)}, "args": args,
                    "trait": cont.get("trait"), "self_ty": cont.get("self_ty")}
        return {"kind": "extern", "args": args, "trait": cont.get("trait"),
                "self_ty": T.subst(cont["self_ty"], {}) if cont.get("self_ty") else None}

    # ================================================================ calls
    def summary_key(self, callee):
        cont = callee["container"]
        k = cont.get("kind")
        name = callee["name"]
        if k == "trait":
            return cont["trait"] + "::" + name
        if k in ("inherent_impl", "trait_impl"):
            st = cont["self_ty"]
            sk = st.get("k")
            if sk == "adt":
                head = st["def"]
            elif sk == "int":
                head = "int"
            elif sk in ("slice", "array", "bool", "tuple", "str", "ref", "ptr"):
                head = sk
            else:
                head = sk or "?"
            if k == "trait_impl":
                return "<%s as %s>::%s" % (head, cont["trait"], name)
            return head + "::" + name
        return callee["def"]

    def do_call(self, st, fr, bb, t):
        """returns the list of continuing states (dest written)."""
        span = t["span"]
        args = [self.operand(st, fr, a) for a in t["args"]]
        callee = t.get("callee")
        dest_ty = self.place_ty(fr, t["dest"])
        if callee is None:
            fv = self.operand(st, fr, t["func"])
            if isinstance(fv, FnV):
                callee = fv.fn
            else:
                raise Undecided("indirect call through %r in %s" % (fv, fr.fn_id))
        results = self.call(st, fr, callee, fr.subst, args, dest_ty, span)
        outs = []
        for s2, v in results:
            if t["target"] is not None:
                self.write_place(s2, fr, t["dest"], v)
            outs.append(s2)
        if t["target"] is None:
            for s2 in outs:
                self.terminate("panic", s2, {"kind": "diverge", "callee": callee["def"], "fn": fr.fn_id, "span": span,
                                             "stack": fr.stack})
            return []
        return outs

    def call(self, st, fr, callee, subst, args, dest_ty, span):
        """generic call: -> [(state, return value)]"""
        if callee.get("ctor") is not None:
            c = callee["ctor"]
            return [(st, Agg("adt", c["adt"], c["variant"], args, dest_ty))]
        if callee["kind"] == "Closure":
            rec = self.F.bodies.get(callee["def"])
            raise Undecided("direct closure call %s" % callee["def"])
        r = self.resolve_callee(callee, subst)
        key = self.summary_key(callee)
        ctx = CallCtx(self, fr, callee, r, args, dest_ty, span, key)
        # 1. summaries (external library semantics; also diverging panics)
        if self.summaries is not None:
            res = self.summaries.apply(ctx, st)
            if res is not None:
                return res
        if r["kind"] == "body" and r["rec"]["id"] in self.abstract_defs:
            r2 = dict(r)
            r2["trait"] = r.get("trait") or r["rec"]["id"]
            return self.abstract_call(st, fr, callee, r2, args, dest_ty, span)
        if r["kind"] == "body":
            res = self.inline(st, fr, r["rec"], r["subst"], args, span)
            if res is not None:
                return res
            return self.abstract_call(st, fr, callee, r, args, dest_ty, span)
        if r["kind"] == "fncall":
            return self.call_fn_value(st, fr, r, args, dest_ty, span)
        if r["kind"] == "abstract":
            return self.abstract_call(st, fr, callee, r, args, dest_ty, span)
        # extern without summary
        return self.unknown_call(st, fr, callee, r, args, dest_ty, span)

    def inline(self, st, fr, rec, subst, args, span):
        if fr.depth + 1 > MAX_DEPTH:
            raise Undecided("inlining depth exceeded at %s" % rec["id"])
        if rec["id"] in [s for s in fr.stack] or rec["id"] == fr.fn_id:
            raise Undecided("recursion through %s" % rec["id"])
        if self.inline_filter is not None and not self.inline_filter(rec):
            return None
        self.counter += 1
        body = rec["body"]
        f2 = Frame(self.counter, rec, body, subst, fr.depth + 1, fr.stack + (fr.fn_id,))
        self.frames[f2.fid] = f2
        self.called.add(rec["id"])
        n = int(body["arg_count"])
        if len(args) != n:
            raise Undecided("arity mismatch calling %s: %d args for %d params" % (rec["id"], len(args), n))
        for i, a in enumerate(args):
            st.mem[("L", f2.fid, i + 1)] = a
        base_len = len(st.trace)
        outs, _ = self.run_blocks(f2, {0: [st]})
        res = []
        for s2, v in outs:
            # free the callee's locals
            for r in [r for r in s2.mem if r[0] == "L" and r[1] == f2.fid]:
                del s2.mem[r]
            res.append((s2, v))
        if len(res) > 1 and not self.no_merge and all(len(s2.trace) == base_len for s2, _ in res):
            # several event-free return paths of a helper: merge them (if-then-else)
            ms, v = self.merge_states([s2 for s2, _ in res], [x for _, x in res])
            return [(ms, v)]
        cnts = getattr(fr, "inline_counts", None)
        if cnts is None:
            cnts = fr.inline_counts = {}
        cnts[rec["id"]] = cnts.get(rec["id"], 0) + 1
        if len(res) > 2 and not self.no_merge and self.merge_returns and cnts[rec["id"]] >= 3:
            # a helper inlined repeatedly by one caller (third call site onwards on a path), with several return paths
            # that did something and hand back the *same* outcome (an early
            # `return Ok(())` next to tail-returned results of hardware calls): the paths with the same result variant
            # are joined like any other control-flow join, else every call site multiplies the paths of its caller
            # (a helper called once per data pin: 3^16). Different variants (Ok / Err) stay separate paths, and the
            # events stay apart as alternatives of the trace.
            split = []
            for s2, v in res:
                split.extend(self.split_result(s2, v))
            groups, order = {}, []
            for s2, v in split:
                k = (s2.lineage, v.name, v.variant) if isinstance(v, Agg) and v.kind == "adt" and v.variant is not None else ("single", id(s2))
                if k not in groups:
                    groups[k] = []
                    order.append(k)
                groups[k].append((s2, v))
            if any(len(g) >= 3 for g in groups.values()):
                out = []
                for k in order:
                    g = groups[k]
                    if len(g) < 3:
                        out.extend(g)
                    else:
                        out.append(self.merge_states([s2 for s2, _ in g], [x for _, x in g]))
                return out
        return res

    def call_fn_value(self, st, fr, r, args, dest_ty, span):
        """Fn/FnMut/FnOnce::call*(f, (args...)) with f a closure or fn item"""
        f = args[0]
        tup = args[1]
        if isinstance(f, Ptr):
            fval = self.read(st, f.root, f.path, f.pty)
        else:
            fval = f
        cargs = list(tup.fields) if isinstance(tup, Agg) else None
        if cargs is None:
            raise Undecided("untupling call arguments %r" % (tup,))
        sty = r["self_ty"]
        if isinstance(fval, FnV) or sty.get("k") == "fndef":
            fn = fval.fn if isinstance(fval, FnV) else sty["fn"]
            return self.call(st, fr, fn, {}, cargs, dest_ty, span)
        if isinstance(fval, SymV) and fval.ty.get("k") == "closure":
            fval = self.expand_sym(fval)
        if isinstance(fval, Agg) and fval.kind == "closure":
            rec = self.F.bodies.get(fval.name)
            if rec is None:
                raise Undecided("closure body %s not found" % fval.name)
            env = fval.extra
            if env is None:
                # closure known only by type: rebuild the substitution from its parent's generics
                env = self.closure_subst(rec, sty)
            body = rec["body"]
            self_ty = body["locals"][1]["ty"]
            if self_ty.get("k") in ("ref", "ptr"):
                if isinstance(f, Ptr):
                    a0 = f
                else:
                    self.counter += 1
                    root = ("O", "closure-env#%d" % self.counter)
                    st.mem[root] = fval
                    a0 = Ptr(root, (), None, fval.ty, True)
            else:
                a0 = fval
            return self.inline(st, fr, rec, env, [a0] + cargs, span)
        raise Undecided("call of function value %r" % (fval,))

    def closure_subst(self, rec, cty):
        parent = self.F.bodies.get(rec.get("parent_fn"))
        if parent is None:
            return {}
        names = [p["name"] for p in parent["generics"]["params"]]
        return dict(zip(names, cty.get("parent_args", [])))

    def havoc_mut_args(self, st, args, why):
        for a in args:
            self._havoc_reach(st, a, why, 0)

    def _havoc_reach(self, st, a, why, depth):
        if depth > 3:
            return
        if isinstance(a, Ptr):
            if not a.mut:
                return
            if a.pty is None and a.root not in st.mem:
                return
            cur = self.read(st, a.root, a.path, a.pty)
            if isinstance(cur, Ptr):
                # `&mut &mut T`: the callee can change the T behind the inner reference
                self._havoc_reach(st, cur, why, depth + 1)
                return
            new = self.havoc_like(cur, why, origin=True)
            self.write(st, a.root, a.path, new, a.pty)
        elif isinstance(a, Agg):
            for f in a.fields:
                self._havoc_reach(st, f, why, depth + 1)

    def describe_loc(self, root, path):
        """human / rule-facing name of a memory location: 'self.di', '*self.dc', 'self.pins.3'"""
        if root[0] == "O":
            base = root[1]
            ty = self.root_types.get(root)
        else:
            fr = self.frames.get(root[1])
            base = "_%s" % (root[2],)
            ty = None
            if fr is not None:
                if fr.names is None:
                    fr.names = {}
                    for d in fr.body.get("debug", []):
                        if not d["place"]["proj"]:
                            fr.names.setdefault(d["place"]["local"], d["name"])
                base = fr.names.get(root[2], base)
                if fr.depth > 0:
                    base = "%s::%s" % (fr.rec.get("name") or "?", base)
                ty = self.local_ty(fr, root[2])
        for s in path:
            if s[0] == "f":
                fname = str(s[1])
                if ty is not None and ty.get("k") == "adt":
                    try:
                        vs = self.adt(ty["def"])["variants"]
                        vi = 0
                        fname = vs[vi]["fields"][s[1]]["name"]
                    except (IndexError, KeyError, Undecided):
                        pass
                base += "." + fname
                ty = s[2].ty if len(s) > 2 and s[2] is not None else None
            elif s[0] == "d":
                base += "@%s" % (s[1],)
            elif s[0] == "i":
                base += "[%d]" % s[1]
                ty = ty.get("ty") if ty is not None and ty.get("k") in ("array", "slice") else None
            elif s[0] == "s":
                base += "[%d..%d]" % (s[1], s[2])
            else:
                base += "[..]"
        return base

    def snapshot_args(self, st, args):
        pts, names = [], []
        for a in args:
            if isinstance(a, Ptr):
                names.append(self.describe_loc(a.root, a.path))
                try:
                    saved, self.write_log = self.write_log, None
                    pts.append(self.read(st, a.root, a.path, a.pty))
                except Undecided:
                    pts.append(None)
                finally:
                    self.write_log = saved
            else:
                names.append(None)
                pts.append(None)
        return pts, names

    def abstract_call(self, st, fr, callee, r, args, dest_ty, span, pure=False):
        """a trait method on an abstract type: becomes an event"""
        name = callee["name"]
        trait = r["trait"]
        ret = self.mk_sym(self.normalize(dest_ty), self.fresh("%s" % name)) if dest_ty is not None else UNITV
        if self.result_facts is not None and isinstance(ret, SymV):
            # a rule's stated precondition on what an abstract callee returns (e.g. "an in-bounds pixel stream")
            for q in self.result_facts(trait, name, ret.name) or ():
                st.facts.add_fact_ge0(q)
        if not self.dry:
            pts, names = self.snapshot_args(st, args)
            st.trace.append(Ev("call", trait=trait, method=name, self_ty=r["self_ty"], gargs=r["args"], args=args, ret=ret,
                               fn=fr.fn_id, span=span, stack=fr.stack + (fr.fn_id,), pointees=pts, names=names))
        # the callee may mutate what it receives by &mut (only for `&mut` typed arguments)
        sig_mut = []
        for a in args:
            if isinstance(a, Ptr):
                sig_mut.append(a)
        if not pure:
            self.havoc_mut_args(st, args, name)
        return [(st, ret)]

    def reaches_effects(self, v, depth=0):
        """can a callee given this argument do something the interpreter would not see? It can if it receives a
        mutable reference, a closure, or an object of an abstract (caller-chosen) type such as a pin or a bus; a
        function of plain values can only compute its result, which is a fresh unknown anyway."""
        if depth > 6:
            return True
        if isinstance(v, Ptr):
            return bool(v.mut) or (v.pty is not None and "param" in repr(v.pty))
        if isinstance(v, SymV):
            return "'k': 'param'" in repr(v.ty) or "'k': 'proj'" in repr(v.ty) or "'k': 'ref'" in repr(v.ty) or "'k': 'closure'" in repr(v.ty)
        if isinstance(v, Agg):
            if v.kind == "closure":
                return True
            return any(self.reaches_effects(f, depth + 1) for f in v.fields)
        if isinstance(v, ITE):
            return self.reaches_effects(v.a, depth + 1) or self.reaches_effects(v.b, depth + 1)
        if isinstance(v, Term):
            return any(self.reaches_effects(a, depth + 1) for a in v.args)
        return False

    def unknown_call(self, st, fr, callee, r, args, dest_ty, span):
        self.notes.append({"what": "unknown_call", "callee": callee["def"], "key": self.summary_key(callee), "fn": fr.fn_id,
                           "span": span, "effects": any(self.reaches_effects(a) for a in args)})
        if not self.dry:
            st.trace.append(Ev("note", fn=fr.fn_id, span=span, stack=fr.stack, info=("unknown_call", callee["def"])))
        ret = self.mk_sym(self.normalize(dest_ty), self.fresh(callee["name"] or "ext")) if dest_ty is not None else UNITV
        self.havoc_mut_args(st, args, callee["name"])
        return [(st, ret)]

    # ================================================================ entry points
    def run_entry(self, rec, subst=None, args=None, arg_names=None, assume=None, init_mem=None, assume_cond=None):
        """symbolically execute body `rec` from a fresh state. args: optional list of values
        (None entries are replaced by symbols named after the parameter)."""
        self.terminated = []
        self.prod_attempts = 0
        self.loops = {}
        self.notes = []
        self.paths = 0
        self.discharged = 0
        self.called = {rec["id"]}
        st = State()
        body = rec["body"]
        subst = subst or {}
        self.counter += 1
        fr = Frame(self.counter, rec, body, subst, 0, ())
        self.frames = {fr.fid: fr}
        n = int(body["arg_count"])
        names = {}
        for d in body.get("debug", []):
            if d.get("arg") is not None and not d["place"]["proj"]:
                names[d["place"]["local"]] = d["name"]
        for i in range(1, n + 1):
            v = args[i - 1] if args and i - 1 < len(args) and args[i - 1] is not None else None
            if v is None:
                nm = (arg_names or {}).get(i) or names.get(i) or "arg%d" % i
                v = self.mk_sym(self.normalize(self.local_ty(fr, i)), nm)
            st.mem[("L", fr.fid, i)] = v
        for r, v in (init_mem or {}).items():
            st.mem[r] = v
        for q in (assume or []):
            st.facts.add_fact_ge0(q)
        for g, q in (assume_cond or []):
            st.facts.add_conditional(g, q)       # a precondition that holds under a guard (e.g. an accumulator invariant)
        outs, _ = self.run_blocks(fr, {0: [st]})
        res = Result()
        res.entry = rec["id"]
        res.frame = fr
        res.discharged = self.discharged
        for s, v in outs:
            for s2, v2 in self.split_result(s, v):
                for s3, v3 in self.split_payload_ites(s2, v2):
                    res.outcomes.append(Outcome("return", s3, v3, None))
        res.outcomes.extend(self.terminated)
        res.loops = self.loops
        res.notes = list(self.notes)
        res.cone = set(self.called)
        return res


class Result:
    def __init__(self):
        self.outcomes = []
        self.loops = {}
        self.notes = []
        self.cone = set()
        self.entry = None
        self.frame = None

    def returns(self):
        return [o for o in self.outcomes if o.kind == "return"]

    def panics(self):
        return [o for o in self.outcomes if o.kind == "panic"]


class CallCtx:
    def __init__(self, ex, fr, callee, resolved, args, dest_ty, span, key):
        self.ex = ex
        self.fr = fr
        self.callee = callee
        self.r = resolved
        self.args = args
        self.dest_ty = dest_ty
        self.span = span
        self.key = key
        self.gargs = resolved["args"]
