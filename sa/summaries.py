"""Summaries of external library functions (the trusted base of DESIGN.md section 8).

Each summary receives a CallCtx and the state and returns [(state, value)] or None
("no summary": the interpreter inlines a crate body or records an abstract/unknown call)."""
import tys as T
from poly import (Poly, ZERO, ONE, sym_int, b_not, b_and, b_or, ge0, eq0, cmp_lt, cmp_le, cmp_eq, register_range)
from values import (IntV, BoolV, Agg, SymV, Ptr, FnV, ITE, Term, Undef, UNITV, vkey, veq, mk_ite)

RESULT = "core::result::Result"
OPTION = "core::option::Option"
CFLOW = "core::ops::control_flow::ControlFlow"
FROM = "core::convert::From"

PANIC_PREFIXES = ("core::panicking::", "core::option::expect_failed", "core::option::unwrap_failed",
                  "core::result::unwrap_failed", "core::slice::index::slice_", "core::str::slice_error")


def mk_callee(trait, name, args, def_id=None):
    return {"def": def_id or (trait + "::" + name), "name": name, "kind": "AssocFn", "args": args,
            "container": {"kind": "trait", "trait": trait}, "pretty": trait + "::" + name}


class Summaries:
    def __init__(self):
        self.table = {}
        self.used = {}
        for name in dir(self):
            if name.startswith("s_"):
                fn = getattr(self, name)
                for k in (fn.__doc__ or "").split("\n")[0].split(" | "):
                    k = k.strip()
                    if k:
                        self.table[k] = fn

    def apply(self, ctx, st):
        d = ctx.callee["def"]
        if d.startswith(PANIC_PREFIXES) or ctx.callee["name"] in ("panic_fmt", "panic", "assert_failed", "panic_explicit"):
            ctx.ex.terminate("panic", st, {"kind": "panic_call", "callee": d, "fn": ctx.fr.fn_id, "span": ctx.span,
                                           "stack": ctx.fr.stack})
            return []
        fn = self.table.get(ctx.key)
        if fn is None:
            return None
        res = fn(ctx, st)
        if res is not None:
            self.used[ctx.key] = self.used.get(ctx.key, 0) + 1
        return res

    # ------------------------------------------------------------------ helpers
    @staticmethod
    def split_enum(ex, st, v, nvariants=None):
        """[(cond poly, variant, fields)] of an enum value (Agg, symbolic, or ITE of those)"""
        if isinstance(v, Agg):
            return [(ONE, v.variant, list(v.fields))]
        if isinstance(v, SymV):
            a = ex.adt(v.ty["def"])
            out = []
            for i in range(len(a["variants"])):
                c = st.facts.simplify(ex.variant_cond(v, i))
                if c.const_value() == 0:
                    continue
                e = ex.expand_sym(v, i)
                out.append((c, i, list(e.fields)))
            return out
        if isinstance(v, ITE):
            out = []
            for c, var, fs in Summaries.split_enum(ex, st, v.a):
                out.append((v.c * c, var, fs))
            for c, var, fs in Summaries.split_enum(ex, st, v.b):
                out.append(((ONE - v.c) * c, var, fs))
            return out
        raise ex_undecided("enum value expected, got %r" % (v,))

    @staticmethod
    def join(cases):
        """cases: [(cond, value)] partitioning the space -> merged value"""
        cases = [(c, v) for c, v in cases if c.const_value() != 0]
        if not cases:
            return Undef
        v = cases[-1][1]
        for c, x in reversed(cases[:-1]):
            v = mk_ite(c, x, v)
        return v

    def map_enum(self, ctx, st, v, fn):
        cases = []
        for c, var, fs in self.split_enum(ctx.ex, st, v):
            cases.append((c, fn(var, fs)))
        return self.join(cases)

    @staticmethod
    def apply_fn(ctx, st, f, args):
        """call a function value (fn item / ctor / closure) that must not fork"""
        ex = ctx.ex
        if isinstance(f, FnV):
            return ex.call_single(st, ctx.fr, f.fn, {}, args, None, ctx.span)
        else:
            sty = f.ty if isinstance(f, (Agg, SymV)) and f.ty is not None else {"k": "closure", "def": getattr(f, "name", None)}
            r = {"self_ty": sty, "args": [], "trait": "core::ops::function::FnOnce"}
            res = ex.call_fn_value(st, ctx.fr, r, [f, Agg("tuple", None, None, args)], None, ctx.span)
        if not res:
            st.dead = True
            return Undef
        if len(res) == 1:
            s2, v = res[0]
        else:
            # several return paths of the closure (e.g. a short-circuit `&&` in a predicate): merged if-then-else
            s2, v = ex.merge_states([s for s, _ in res], [x for _, x in res])
        if s2 is not st:
            st.mem, st.facts, st.trace = s2.mem, s2.facts, s2.trace
        return v

    @staticmethod
    def deref_arg(ctx, st, a):
        if isinstance(a, Ptr):
            return ctx.ex.read(st, a.root, a.path, a.pty)
        return a

    # ------------------------------------------------------------------ Try / Result / Option
    def s_branch(self, ctx, st):
        """core::ops::try_trait::Try::branch"""
        sty = ctx.gargs[0]
        if sty.get("k") != "adt":
            return None
        v = ctx.args[0]
        if sty["def"] == RESULT:
            def f(var, fs):
                if var == 0:
                    return Agg("adt", CFLOW, 0, [fs[0]])
                return Agg("adt", CFLOW, 1, [Agg("adt", RESULT, 1, [fs[0]])])
            return [(st, self.map_enum(ctx, st, v, f))]
        if sty["def"] == OPTION:
            def g(var, fs):
                if var == 1:
                    return Agg("adt", CFLOW, 0, [fs[0]])
                return Agg("adt", CFLOW, 1, [Agg("adt", OPTION, 0, [])])
            return [(st, self.map_enum(ctx, st, v, g))]
        if sty["def"] == CFLOW:
            # ControlFlow<B, C>: Continue(c) -> Continue(c), Break(b) -> Break(Break(b))
            def h(var, fs):
                if var == 0:
                    return Agg("adt", CFLOW, 0, [fs[0]])
                return Agg("adt", CFLOW, 1, [Agg("adt", CFLOW, 1, [fs[0]])])
            return [(st, self.map_enum(ctx, st, v, h))]
        return None

    def s_from_residual(self, ctx, st):
        """core::ops::try_trait::FromResidual::from_residual"""
        sty, rty = ctx.gargs[0], ctx.gargs[1]
        v = ctx.args[0]
        if sty.get("k") == "adt" and sty["def"] == RESULT:
            F = sty["args"][1]
            # (a residual type left as `<R as Try>::Residual` - generic code over R - is R's own: same error type)
            E = rty["args"][1] if rty.get("k") == "adt" and len(rty.get("args") or []) > 1 else F
            def f(var, fs):
                e = fs[0]
                if T.tkey(F) != T.tkey(E):
                    e = ctx.ex.call_single(st, ctx.fr, mk_callee(FROM, "from", [F, E]), {}, [e], F, ctx.span)
                return Agg("adt", RESULT, 1, [e])
            return [(st, self.map_enum(ctx, st, v, f))]
        if sty.get("k") == "adt" and sty["def"] == OPTION:
            return [(st, Agg("adt", OPTION, 0, []))]
        if sty.get("k") == "adt" and sty["def"] == CFLOW:
            def k_(var, fs):
                return Agg("adt", CFLOW, 1, [fs[0]], ctx.ex.normalize(sty))
            return [(st, self.map_enum(ctx, st, v, k_))]
        return None

    def s_map_err(self, ctx, st):
        """core::result::Result::map_err"""
        v, f = ctx.args

        def g(var, fs):
            if var == 0:
                return Agg("adt", RESULT, 0, [fs[0]])
            return Agg("adt", RESULT, 1, [self.apply_fn(ctx, st, f, [fs[0]])])
        return [(st, self.map_enum(ctx, st, v, g))]

    def s_is_ok(self, ctx, st):
        """core::result::Result::is_ok | core::result::Result::is_err | core::option::Option::is_some | core::option::Option::is_none"""
        v = self.deref_arg(ctx, st, ctx.args[0])
        name = ctx.callee["name"]
        want = {"is_ok": 0, "is_err": 1, "is_some": 1, "is_none": 0}[name]
        return [(st, BoolV(st.facts.simplify(ctx.ex.variant_cond(v, want))))]

    def s_unwrap(self, ctx, st):
        """core::result::Result::unwrap | core::result::Result::expect | core::option::Option::unwrap | core::option::Option::expect"""
        ex = ctx.ex
        v = ctx.args[0]
        is_opt = ctx.key.startswith(OPTION)
        good = 1 if is_opt else 0
        cg = st.facts.simplify(ex.variant_cond(v, good))
        cv = cg.const_value()
        if cv != 1:
            bad = b_not(cg)
            if cv == 0 or ex.feasible(st, bad):
                ps = st.fork()
                if cv == 0 or ps.facts.assume(bad, 1):
                    ex.terminate("panic", ps, {"kind": "unwrap", "callee": ctx.callee["def"], "fn": ctx.fr.fn_id,
                                               "span": ctx.span, "value": repr(v), "stack": ctx.fr.stack})
            if cv == 0 or not st.facts.assume(cg, 1):
                return []
        cases = [(c, fs[0]) for c, var, fs in self.split_enum(ex, st, v) if var == good]
        return [(st, self.join(cases))]

    def s_ok(self, ctx, st):
        """core::result::Result::ok"""
        def g(var, fs):
            return Agg("adt", OPTION, 1, [fs[0]]) if var == 0 else Agg("adt", OPTION, 0, [])
        return [(st, self.map_enum(ctx, st, ctx.args[0], g))]

    def s_take(self, ctx, st):
        """core::option::Option::take"""
        p = ctx.args[0]
        old = ctx.ex.read(st, p.root, p.path, p.pty)
        ctx.ex.write(st, p.root, p.path, Agg("adt", OPTION, 0, [], p.pty), p.pty)
        return [(st, old)]

    # ------------------------------------------------------------------ Option / Result combinators
    def call_f(self, ctx, st, f, args):
        """call a function value (fn item / constructor / closure); it may fork: -> [(state, value)]"""
        ex = ctx.ex
        if isinstance(f, FnV):
            return ex.call(st, ctx.fr, f.fn, {}, args, None, ctx.span)
        sty = f.ty if isinstance(f, (Agg, SymV)) and getattr(f, "ty", None) is not None else {"k": "closure", "def": getattr(f, "name", None)}
        r = {"self_ty": sty, "args": [], "trait": "core::ops::function::FnOnce"}
        return ex.call_fn_value(st, ctx.fr, r, [f, Agg("tuple", None, None, args)], None, ctx.span)

    def per_variant(self, ctx, st, v, handler):
        """fork on the variant of enum value v; handler(state, variant, fields) -> [(state, value)]"""
        out = []
        cases = self.split_enum(ctx.ex, st, v)
        for c, var, fs in cases:
            s2 = st.fork() if len(cases) > 1 else st
            if not s2.facts.assume(c, 1):
                continue
            out.extend(handler(s2, var, fs))
        return out

    def dest_agg(self, ctx, name, var, fields):
        return Agg("adt", name, var, fields, ctx.ex.normalize(ctx.dest_ty) if ctx.dest_ty is not None else None)

    def s_opt_as_ref(self, ctx, st):
        """core::option::Option::as_mut | core::option::Option::as_ref | core::result::Result::as_mut | core::result::Result::as_ref"""
        p = ctx.args[0]
        if not isinstance(p, Ptr):
            return None
        v = ctx.ex.read(st, p.root, p.path, p.pty)
        is_opt = ctx.key.startswith(OPTION)
        name = OPTION if is_opt else RESULT
        mut = ctx.callee["name"] == "as_mut"

        def h(s2, var, fs):
            if is_opt and var == 0:
                return [(s2, self.dest_agg(ctx, name, 0, []))]
            fty = getattr(fs[0], "ty", None) if fs else None
            q = Ptr(p.root, tuple(p.path) + (("d", var), ("f", 0, None)), None, fty, mut and p.mut)
            return [(s2, self.dest_agg(ctx, name, var, [q]))]
        return self.per_variant(ctx, st, v, h)

    def s_opt_map(self, ctx, st):
        """core::option::Option::map | core::result::Result::map | core::option::Option::and_then | core::result::Result::and_then"""
        v, f = ctx.args
        is_opt = ctx.key.startswith(OPTION)
        name = OPTION if is_opt else RESULT
        good = 1 if is_opt else 0
        flat = ctx.callee["name"] == "and_then"

        def h(s2, var, fs):
            if var != good:
                return [(s2, self.dest_agg(ctx, name, var, list(fs)))]
            out = []
            for s3, r in self.call_f(ctx, s2, f, [fs[0]]):
                out.append((s3, r if flat else self.dest_agg(ctx, name, good, [r])))
            return out
        return self.per_variant(ctx, st, v, h)

    def s_opt_map_or(self, ctx, st):
        """core::option::Option::map_or | core::result::Result::map_or | core::option::Option::map_or_else | core::result::Result::map_or_else"""
        v, d, f = ctx.args
        is_opt = ctx.key.startswith(OPTION)
        good = 1 if is_opt else 0
        lazy = ctx.callee["name"] == "map_or_else"

        def h(s2, var, fs):
            if var == good:
                return self.call_f(ctx, s2, f, [fs[0]])
            if lazy:
                return self.call_f(ctx, s2, d, [] if is_opt else [fs[0]])
            return [(s2, d)]
        return self.per_variant(ctx, st, v, h)

    def s_opt_unwrap_or(self, ctx, st):
        """core::option::Option::unwrap_or | core::result::Result::unwrap_or | core::option::Option::unwrap_or_else | core::result::Result::unwrap_or_else | core::option::Option::unwrap_or_default | core::result::Result::unwrap_or_default"""
        v = ctx.args[0]
        is_opt = ctx.key.startswith(OPTION)
        good = 1 if is_opt else 0
        nm = ctx.callee["name"]
        if nm == "unwrap_or_default":
            return None

        def h(s2, var, fs):
            if var == good:
                return [(s2, fs[0])]
            if nm == "unwrap_or_else":
                return self.call_f(ctx, s2, ctx.args[1], [] if is_opt else [fs[0]])
            return [(s2, ctx.args[1])]
        return self.per_variant(ctx, st, v, h)

    def s_opt_ok_or(self, ctx, st):
        """core::option::Option::ok_or | core::option::Option::ok_or_else"""
        v, e = ctx.args
        lazy = ctx.callee["name"] == "ok_or_else"

        def h(s2, var, fs):
            if var == 1:
                return [(s2, self.dest_agg(ctx, RESULT, 0, [fs[0]]))]
            if lazy:
                return [(s3, self.dest_agg(ctx, RESULT, 1, [r])) for s3, r in self.call_f(ctx, s2, e, [])]
            return [(s2, self.dest_agg(ctx, RESULT, 1, [e]))]
        return self.per_variant(ctx, st, v, h)

    def s_bool_then(self, ctx, st):
        """bool::then | bool::then_some"""
        b, x = ctx.args
        if not isinstance(b, BoolV):
            return None
        cv = st.facts.simplify(b.p).const_value()
        out = []
        lazy = ctx.callee["name"] == "then"
        for val in (1, 0):
            if cv is not None and cv != val:
                continue
            s2 = st.fork() if cv is None else st
            if cv is None and not s2.facts.assume(b.p, val):
                continue
            if not val:
                out.append((s2, self.dest_agg(ctx, OPTION, 0, [])))
            elif lazy:
                for s3, r in self.call_f(ctx, s2, x, []):
                    out.append((s3, self.dest_agg(ctx, OPTION, 1, [r])))
            else:
                out.append((s2, self.dest_agg(ctx, OPTION, 1, [x])))
        return out

    def s_res_err(self, ctx, st):
        """core::result::Result::err"""
        def g(var, fs):
            return Agg("adt", OPTION, 1, [fs[0]]) if var == 1 else Agg("adt", OPTION, 0, [])
        return [(st, self.map_enum(ctx, st, ctx.args[0], g))]

    def s_opt_replace(self, ctx, st):
        """core::option::Option::replace | core::option::Option::insert"""
        p, x = ctx.args
        if not isinstance(p, Ptr) or ctx.callee["name"] != "replace":
            return None
        old = ctx.ex.read(st, p.root, p.path, p.pty)
        ctx.ex.write(st, p.root, p.path, Agg("adt", OPTION, 1, [x], p.pty), p.pty)
        return [(st, old)]

    def s_opt_copied(self, ctx, st):
        """core::option::Option::copied | core::option::Option::cloned"""
        v = ctx.args[0]

        def h(s2, var, fs):
            if var == 0:
                return [(s2, self.dest_agg(ctx, OPTION, 0, []))]
            return [(s2, self.dest_agg(ctx, OPTION, 1, [self.deref_arg(ctx, s2, fs[0])]))]
        return self.per_variant(ctx, st, v, h)

    # ------------------------------------------------------------------ conversions
    def s_into(self, ctx, st):
        """core::convert::Into::into"""
        U, Tt = ctx.gargs[0], ctx.gargs[1]
        if T.tkey(U) == T.tkey(Tt):
            return [(st, ctx.args[0])]
        return ctx.ex.call(st, ctx.fr, mk_callee(FROM, "from", [Tt, U]), {}, [ctx.args[0]], Tt, ctx.span)

    def s_pin_set_state(self, ctx, st):
        """embedded_hal::digital::OutputPin::set_state"""
        # the trait's provided method: `match state { Low => self.set_low(), High => self.set_high() }`
        if ctx.r["kind"] == "body":
            return None
        ex = ctx.ex
        recv, state = ctx.args
        sty = ctx.gargs[0] if ctx.gargs else None
        out = []
        cases = self.split_enum(ex, st, state, 2)
        for c, var, _fs in cases:
            s2 = st.fork() if len(cases) > 1 else st
            if not s2.facts.assume(c, 1):
                continue
            callee = mk_callee("embedded_hal::digital::OutputPin", "set_low" if var == 0 else "set_high", [sty] if sty else [])
            out.extend(ex.call(s2, ctx.fr, callee, {}, [recv], ctx.dest_ty, ctx.span))
        if len(out) > 1 and not ex.no_merge:
            # the two arms of the provided method join again, like the `if` it replaces
            ms, v = ex.merge_states([s_ for s_, _ in out], [v_ for _, v_ in out])
            return [(ms, v)]
        return out

    def s_from(self, ctx, st):
        """core::convert::From::from"""
        if ctx.r["kind"] == "body":
            return None
        Tt, U = ctx.gargs[0], ctx.gargs[1]
        v = ctx.args[0]
        if T.tkey(Tt) == T.tkey(U):
            return [(st, v)]
        if Tt.get("k") == "adt" and Tt.get("def") == "embedded_hal::digital::PinState" and isinstance(v, BoolV):
            # From<bool> for PinState: false -> Low, true -> High
            return [(st, mk_ite(v.p, Agg("adt", Tt["def"], 1, [], Tt), Agg("adt", Tt["def"], 0, [], Tt)))]
        tb, ub = ctx.ex.ibits(Tt), ctx.ex.ibits(U)
        if tb and ub and isinstance(v, (IntV, BoolV)):
            v = ctx.ex.to_int(v)
            # lossless widening conversions only exist as From impls
            r = IntV(tb[0], tb[1], p=v.poly())
            if v.bv is not None:
                ext = v.bv[-1] if v.signed else ZERO
                r.bv = (list(v.bv) + [ext] * tb[0])[:tb[0]]
            return [(st, r)]
        # abstract target type (e.g. BUS::Word: From<u8>): a pure term of its argument
        return [(st, Term("From::from<%s>" % T.tstr(Tt), [v], Tt))]

    def s_int_ops(self, ctx, st):
        """core::ops::bit::BitXor::bitxor | core::ops::bit::BitAnd::bitand | core::ops::bit::BitOr::bitor | core::ops::bit::Not::not | core::ops::bit::Shl::shl | core::ops::bit::Shr::shr | core::ops::arith::Add::add | core::ops::arith::Sub::sub | core::ops::arith::Mul::mul"""
        # operator traits on primitive integers / bool (a helper generic over the word type: `value ^ old`, `!W::from(0)`)
        # are the built-in operators; the arithmetic ones panic on overflow like the operator does in this build
        if ctx.r["kind"] == "body":
            return None
        ex = ctx.ex
        vals = [self.deref_arg(ctx, st, a) for a in ctx.args]
        if not all(isinstance(v, (IntV, BoolV)) for v in vals):
            return None
        nm = ctx.callee["name"]
        if nm == "not":
            return [(st, ex.unop(st, ctx.fr, "Not", vals[0]))]
        if len(vals) != 2:
            return None
        op = {"bitxor": "BitXor", "bitand": "BitAnd", "bitor": "BitOr", "shl": "Shl", "shr": "Shr"}.get(nm)
        if op is not None:
            if op in ("Shl", "Shr") and not all(isinstance(v, IntV) for v in vals):
                return None
            return [(st, ex.binop(st, ctx.fr, op, vals[0], vals[1], ctx.span))]
        if not all(isinstance(v, IntV) for v in vals):
            return None
        r = ex.binop(st, ctx.fr, {"add": "AddWithOverflow", "sub": "SubWithOverflow", "mul": "MulWithOverflow"}[nm], vals[0], vals[1], ctx.span)
        if not ex.obligation(st, ctx.fr, b_not(r.fields[1].p), {"kind": "assert", "what": "overflow", "op": nm, "span": ctx.span,
                                                               "a": repr(vals[0]), "b": repr(vals[1]), "fn": ctx.fr.fn_id, "stack": ctx.fr.stack}):
            return []
        return [(st, r.fields[0])]

    def s_try_from(self, ctx, st):
        """core::convert::TryFrom::try_from | core::convert::TryInto::try_into"""
        ex = ctx.ex
        if ctx.callee["name"] == "try_into":
            U, Tt = ctx.gargs[0], ctx.gargs[1]
        else:
            Tt, U = ctx.gargs[0], ctx.gargs[1]
        v = ctx.args[0]
        tb, ub = ex.ibits(Tt), ex.ibits(U)
        if tb and ub and isinstance(v, IntV):
            p = st.facts.simplify(v.poly())
            tlo, thi = (-(1 << (tb[0] - 1)), (1 << (tb[0] - 1)) - 1) if tb[1] else (0, (1 << tb[0]) - 1)
            fits = b_and(ge0(p - tlo, st.facts), ge0(Poly.const(thi) - p, st.facts))
            okv = Agg("adt", RESULT, 0, [IntV(tb[0], tb[1], p=p)])
            errv = Agg("adt", RESULT, 1, [SymV({"k": "adt", "def": "core::num::error::TryFromIntError", "args": []}, "TryFromIntError")])
            return [(st, mk_ite(fits, okv, errv))]
        # &mut [T] -> &mut [T; N]  (slice to array reference)
        if isinstance(v, Ptr) and Tt.get("k") in ("ref",) and Tt["ty"].get("k") == "array":
            n = Tt["ty"]["len"]
            if v.meta is not None and n.get("k") == "const":
                ok = eq0(v.meta.poly() - int(n["val"]), st.facts)
            elif v.meta is not None and n.get("k") == "cparam":
                ok = eq0(v.meta.poly() - sym_int("const " + n["name"], ex.pbits, False), st.facts)
            else:
                ok = Poly.atom(("b", ex.fresh("slice_len_matches")))
            okv = Agg("adt", RESULT, 0, [Ptr(v.root, v.path, None, Tt["ty"])])
            errv = Agg("adt", RESULT, 1, [SymV({"k": "adt", "def": "core::array::TryFromSliceError", "args": []}, "TryFromSliceError")])
            return [(st, mk_ite(ok, okv, errv))]
        return None

    # ------------------------------------------------------------------ integers
    def s_to_bytes(self, ctx, st):
        """int::to_be_bytes | int::to_le_bytes | int::to_ne_bytes"""
        ex = ctx.ex
        v = ex.to_int(ctx.args[0])
        bits = ex.int_bits(v, st.facts)
        n = v.bits // 8
        by = [IntV(8, False, bv=list(bits[8 * i:8 * i + 8])) for i in range(n)]  # little-endian order
        name = ctx.callee["name"]
        big = name == "to_be_bytes" or (name == "to_ne_bytes" and ex.F.endian == "big")
        if big:
            by = list(reversed(by))
        return [(st, Agg("array", None, None, by, {"k": "array", "ty": T.U8, "len": {"k": "const", "val": n}}))]

    def s_from_bytes(self, ctx, st):
        """int::from_be_bytes | int::from_le_bytes | int::from_ne_bytes"""
        ex = ctx.ex
        arr = ctx.args[0]
        sty = ctx.callee["container"]["self_ty"]
        b, s = ex.ibits(sty)
        if not isinstance(arr, Agg):
            return None
        name = ctx.callee["name"]
        big = name == "from_be_bytes" or (name == "from_ne_bytes" and ex.F.endian == "big")
        els = list(arr.fields)
        if big:
            els = list(reversed(els))
        bits = []
        for e in els:
            bits.extend(ex.int_bits(ex.to_int(e), st.facts))
        return [(st, IntV(b, s, bv=bits))]

    def s_trailing_ones(self, ctx, st):
        """int::trailing_ones"""
        v = ctx.args[0]
        c = v.const()
        if c is None:
            return None
        n = 0
        while (c >> n) & 1:
            n += 1
        return [(st, IntV(32, False, p=Poly.const(n)))]

    def s_abs_diff(self, ctx, st):
        """int::abs_diff"""
        a, b = ctx.args
        pa, pb = st.facts.simplify(a.poly()), st.facts.simplify(b.poly())
        if st.facts.entails_ge0(pa - pb, 2, 2):
            return [(st, IntV(a.bits, False, p=pa - pb))]
        if st.facts.entails_ge0(pb - pa, 2, 2):
            return [(st, IntV(a.bits, False, p=pb - pa))]
        c = ge0(pa - pb, st.facts)
        r = c * (pa - pb) + (ONE - c) * (pb - pa)
        return [(st, IntV(a.bits, False, p=r))]

    def s_wrapping_add(self, ctx, st):
        """int::wrapping_add"""
        a, b = ctx.args
        return [(st, ctx.ex.wrap(a.poly() + b.poly(), a.bits, a.signed, st.facts, "wrapping_add"))]

    @staticmethod
    def int_bounds(v):
        if v.signed:
            return -(1 << (v.bits - 1)), (1 << (v.bits - 1)) - 1
        return 0, (1 << v.bits) - 1

    def s_checked_arith(self, ctx, st):
        """int::checked_add | int::checked_sub | int::checked_mul"""
        a, b = ctx.args
        if not (isinstance(a, IntV) and isinstance(b, IntV)):
            return None
        op = ctx.callee["name"]
        pa, pb = a.poly(), b.poly()
        r = pa + pb if op == "checked_add" else pa - pb if op == "checked_sub" else pa * pb
        lo, hi = self.int_bounds(a)
        fits = ONE
        for side in (r - lo, Poly.const(hi) - r):
            if st.facts.entails_ge0(side, 2, 1) is None:      # a bound the facts already give is not a condition
                fits = fits * ge0(side, st.facts)
        fits = st.facts.simplify(fits)
        some = Agg("adt", OPTION, 1, [IntV(a.bits, a.signed, p=r)], ctx.ex.normalize(ctx.dest_ty) if ctx.dest_ty else None)
        none = Agg("adt", OPTION, 0, [], ctx.ex.normalize(ctx.dest_ty) if ctx.dest_ty else None)
        cv = fits.const_value()
        if cv == 1:
            return [(st, some)]
        if cv == 0:
            return [(st, none)]
        out = []
        s1 = st.fork()
        if s1.facts.assume(fits, 1):
            out.append((s1, some))
        if st.facts.assume(fits, 0):
            out.append((st, none))
        return out

    def s_saturating_arith(self, ctx, st):
        """int::saturating_add | int::saturating_sub"""
        a, b = ctx.args
        if not (isinstance(a, IntV) and isinstance(b, IntV)):
            return None
        pa, pb = a.poly(), b.poly()
        r = pa + pb if ctx.callee["name"] == "saturating_add" else pa - pb
        lo, hi = self.int_bounds(a)
        over = ge0(r - hi - 1, st.facts)
        under = ge0(Poly.const(lo) - 1 - r, st.facts)
        val = over * hi + under * lo + (ONE - over - under) * r
        return [(st, IntV(a.bits, a.signed, p=st.facts.simplify(val)))]

    def s_wrapping_sub(self, ctx, st):
        """int::wrapping_sub | int::wrapping_mul"""
        a, b = ctx.args
        r = a.poly() - b.poly() if ctx.callee["name"] == "wrapping_sub" else a.poly() * b.poly()
        return [(st, ctx.ex.wrap(r, a.bits, a.signed, st.facts, ctx.callee["name"]))]

    def s_rem_euclid(self, ctx, st):
        """int::rem_euclid"""
        a, b = ctx.args
        m = b.const()
        if m is None or m <= 0:
            return None
        ca = a.const()
        if ca is not None:
            return [(st, IntV(a.bits, a.signed, p=Poly.const(ca % m)))]
        at = ("t", "rem_euclid(%r,%d)" % (a.poly(), m))
        register_range(at, 0, m - 1)
        ctx.ex.alias_defs[at] = ("rem_euclid", a.poly(), m)
        return [(st, IntV(a.bits, a.signed, p=Poly.atom(at)))]

    def s_min(self, ctx, st):
        """core::cmp::min | core::cmp::Ord::min | core::cmp::max | core::cmp::Ord::max"""
        a, b = ctx.args
        if not (isinstance(a, IntV) and isinstance(b, IntV)):
            return None
        pa, pb = a.poly(), b.poly()
        le = cmp_le(pa, pb, st.facts)
        if ctx.callee["name"] == "min":
            r = le * pa + (ONE - le) * pb
        else:
            r = le * pb + (ONE - le) * pa
        return [(st, IntV(a.bits, a.signed, p=r))]

    # ------------------------------------------------------------------ slices / arrays
    @staticmethod
    def elem_path(p, i):
        """path of element i of the slice/array pointer p"""
        if p.path and p.path[-1][0] == "s":
            return p.path[:-1] + (("i", p.path[-1][1] + i),)
        return p.path + (("i", i),)

    @staticmethod
    def ptr_len(ctx, st, p):
        if p.meta is not None:
            return p.meta.poly()
        t = p.pty
        if t is not None and t.get("k") == "array":
            ln = t["len"]
            if ln.get("k") == "const":
                return Poly.const(int(ln["val"]))
            if ln.get("k") == "cparam":
                return sym_int("const " + ln["name"], ctx.ex.pbits, False)
        v = ctx.ex.read(st, p.root, p.path, p.pty)
        if isinstance(v, Agg) and v.kind == "array":
            return Poly.const(len(v.fields))
        return None

    def s_len(self, ctx, st):
        """slice::len | array::len"""
        p = ctx.args[0]
        n = self.ptr_len(ctx, st, p)
        if n is None:
            return None
        return [(st, IntV(ctx.ex.pbits, False, p=n))]

    def s_index(self, ctx, st):
        """core::ops::index::Index::index | core::ops::index::IndexMut::index_mut"""
        ex = ctx.ex
        sty = ctx.gargs[0]
        if sty.get("k") not in ("slice", "array"):
            return None
        p, idx = ctx.args
        ln = self.ptr_len(ctx, st, p)
        if ln is None:
            return None
        ity = ctx.gargs[1]
        ety = sty["ty"]
        base = 0
        path = p.path
        if path and path[-1][0] == "s":
            base = path[-1][1]
            path = path[:-1]
        info = {"kind": "index", "callee": ctx.callee["def"], "span": ctx.span}
        if ity.get("k") == "int":
            i = idx.poly()
            if not ex.obligation(st, ctx.fr, cmp_lt(i, ln, st.facts), dict(info, what="index < len")):
                return []
            c = st.facts.simplify(i).const_value()
            np = path + ((("i", base + c),) if c is not None else (("ix", i.key()),))
            return [(st, Ptr(p.root, np, None, ety, p.mut))]
        if ity.get("k") == "adt" and ity["def"].startswith("core::ops::range::"):
            kind = ity["def"].split("::")[-1]
            zero = ZERO
            if kind == "Range":
                lo, hi = idx.fields[0].poly(), idx.fields[1].poly()
            elif kind == "RangeTo":
                lo, hi = zero, idx.fields[0].poly()
            elif kind == "RangeFrom":
                lo, hi = idx.fields[0].poly(), ln
            elif kind == "RangeFull":
                lo, hi = zero, ln
            else:
                return None
            lo, hi = st.facts.simplify(lo), st.facts.simplify(hi)
            if not ex.obligation(st, ctx.fr, cmp_le(lo, hi, st.facts), dict(info, what="range start <= end")):
                return []
            if not ex.obligation(st, ctx.fr, cmp_le(hi, ln, st.facts), dict(info, what="range end <= len")):
                return []
            cl, ch = lo.const_value(), hi.const_value()
            meta = IntV(ex.pbits, False, p=hi - lo)
            if cl is not None and ch is not None:
                np = path + (("s", base + cl, base + ch),)
            else:
                np = path + (("sx", repr(lo + base), repr(hi + base)),)
            return [(st, Ptr(p.root, np, meta, {"k": "slice", "ty": ety}, p.mut))]
        return None

    def s_copy_from_slice(self, ctx, st):
        """slice::copy_from_slice"""
        ex = ctx.ex
        dst, src = ctx.args
        ld, ls = self.ptr_len(ctx, st, dst), self.ptr_len(ctx, st, src)
        if ld is None or ls is None:
            return None
        if not ex.obligation(st, ctx.fr, cmp_eq(ld, ls, st.facts), {"kind": "copy_from_slice", "what": "equal lengths", "span": ctx.span}):
            return []
        n = st.facts.simplify(ld).const_value()
        if n is None or n > 64:
            cur = ex.read(st, dst.root, dst.path, dst.pty)
            ex.write(st, dst.root, dst.path, ex.havoc_like(cur, "copied"), dst.pty)
            return [(st, UNITV)]
        for i in range(n):
            v = ex.read(st, src.root, self.elem_path(src, i), src.pty)
            ex.write(st, dst.root, self.elem_path(dst, i), v, dst.pty)
        return [(st, UNITV)]

    def s_array_map(self, ctx, st):
        """array::map"""
        arr, f = ctx.args
        if not isinstance(arr, Agg):
            return None
        out = [self.apply_fn(ctx, st, f, [e]) for e in arr.fields]
        return [(st, Agg("array", None, None, out, ctx.dest_ty))]

    def s_split_at(self, ctx, st):
        """slice::split_at | slice::split_at_mut"""
        p, mid = ctx.args
        if not isinstance(p, Ptr) or not isinstance(mid, IntV):
            return None
        n = self.ptr_len(ctx, st, p)
        ex = ctx.ex
        if n is not None and (st.facts.simplify(n).const_value() is None or st.facts.simplify(mid.poly()).const_value() is None) \
                and not (p.path and p.path[-1][0] in ("s", "sx")):
            # symbolic split point: two opaque sub-slices of known lengths (`buffer.split_at(filled).0` as `&buffer[..filled]`)
            nn, mm = st.facts.simplify(n), st.facts.simplify(mid.poly())
            if not ex.obligation(st, ctx.fr, cmp_le(mm, nn, st.facts), {"kind": "index", "what": "mid <= len", "callee": ctx.callee["def"], "span": ctx.span}):
                return []
            ety = p.pty.get("ty") if p.pty and p.pty.get("k") in ("slice", "array") else None
            sty = {"k": "slice", "ty": ety}
            mut = ctx.callee["name"].endswith("_mut") and p.mut
            a = Ptr(p.root, tuple(p.path) + (("sx", "0", repr(mm)),), IntV(ex.pbits, False, p=mm), sty, mut)
            b = Ptr(p.root, tuple(p.path) + (("sx", repr(mm), repr(nn)),), IntV(ex.pbits, False, p=nn - mm), sty, mut)
            return [(st, Agg("tuple", None, None, [a, b], ex.normalize(ctx.dest_ty) if ctx.dest_ty else None))]
        n = st.facts.simplify(n).const_value() if n is not None else None
        m = st.facts.simplify(mid.poly()).const_value()
        if n is None or m is None:
            return None
        if not ex.obligation(st, ctx.fr, ONE if m <= n else ZERO, {"kind": "index", "what": "mid <= len", "callee": ctx.callee["def"], "span": ctx.span}):
            return []
        base, path = 0, p.path
        if path and path[-1][0] == "s":
            base, path = path[-1][1], path[:-1]
        ety = p.pty.get("ty") if p.pty and p.pty.get("k") in ("slice", "array") else None
        sty = {"k": "slice", "ty": ety}
        mut = ctx.callee["name"].endswith("_mut") and p.mut
        a = Ptr(p.root, path + (("s", base, base + m),), IntV(ex.pbits, False, p=Poly.const(m)), sty, mut)
        b = Ptr(p.root, path + (("s", base + m, base + n),), IntV(ex.pbits, False, p=Poly.const(n - m)), sty, mut)
        return [(st, Agg("tuple", None, None, [a, b], ex.normalize(ctx.dest_ty) if ctx.dest_ty else None))]

    def s_is_some_and(self, ctx, st):
        """core::option::Option::is_some_and | core::option::Option::is_none_or | core::result::Result::is_ok_and | core::result::Result::is_err_and"""
        v, f = ctx.args
        nm = ctx.callee["name"]
        want = {"is_some_and": 1, "is_none_or": 1, "is_ok_and": 0, "is_err_and": 1}[nm]
        other = BoolV(ONE if nm == "is_none_or" else ZERO)

        def h(s2, var, fs):
            if var == want and fs:
                return self.call_f(ctx, s2, f, [fs[0]])
            return [(s2, other)]
        return self.per_variant(ctx, st, v, h)

    def s_slice_first(self, ctx, st):
        """slice::first | slice::last | slice::is_empty | array::is_empty | slice::get"""
        ex = ctx.ex
        p = ctx.args[0]
        if not isinstance(p, Ptr):
            return None
        n = self.ptr_len(ctx, st, p)
        if n is None:
            return None
        n = st.facts.simplify(n)
        nm = ctx.callee["name"]
        if nm == "is_empty":
            return [(st, BoolV(cmp_eq(n, ZERO, st.facts)))]
        ety = (p.pty or {}).get("ty")
        c = n.const_value()
        if nm == "get":
            i = ctx.args[1]
            if not isinstance(i, IntV):
                return None
            ic = st.facts.simplify(i.poly()).const_value()
            if ic is None:
                return None
            el = Ptr(p.root, self.elem_path(p, ic), None, ety, False)
            return [(st, mk_ite(ge0(n - ic - 1, st.facts), Agg("adt", OPTION, 1, [el]), Agg("adt", OPTION, 0, [])))]
        if nm == "last":
            if c is None:
                return None
            if c == 0:
                return [(st, Agg("adt", OPTION, 0, []))]
            return [(st, Agg("adt", OPTION, 1, [Ptr(p.root, self.elem_path(p, c - 1), None, ety, False)]))]
        el = Ptr(p.root, self.elem_path(p, 0), None, ety, False)
        return [(st, mk_ite(ge0(n - 1, st.facts), Agg("adt", OPTION, 1, [el]), Agg("adt", OPTION, 0, [])))]

    def s_from_ref(self, ctx, st):
        """core::slice::raw::from_ref | core::slice::raw::from_mut | core::array::from_ref"""
        # &x seen as a one-element slice: the same memory, length 1
        p = ctx.args[0]
        if not isinstance(p, Ptr):
            return None
        ex = ctx.ex
        v = ex.read(st, p.root, p.path, p.pty)
        self_counter = ex.fresh("from_ref")
        root = ("O", self_counter)
        st.mem[root] = Agg("array", None, None, [v], {"k": "array", "ty": p.pty, "len": {"k": "const", "val": 1}} if p.pty else None)
        return [(st, Ptr(root, (), IntV(ex.pbits, False, p=ONE), {"k": "slice", "ty": p.pty}, False))]

    def s_split_first(self, ctx, st):
        """slice::split_first"""
        ex = ctx.ex
        p = ctx.args[0]
        n = self.ptr_len(ctx, st, p)
        if n is None:
            return None
        n = st.facts.simplify(n)
        ety = (p.pty or {}).get("ty")
        first = Ptr(p.root, self.elem_path(p, 0), None, ety, False)
        c = n.const_value()
        if c is not None and p.path and p.path[-1][0] == "s":
            base = p.path[-1][1]
            rest = Ptr(p.root, p.path[:-1] + (("s", base + 1, base + c),), IntV(ex.pbits, False, p=Poly.const(max(c - 1, 0))), p.pty, False)
        elif c is not None:
            rest = Ptr(p.root, p.path + (("s", 1, c),), IntV(ex.pbits, False, p=Poly.const(max(c - 1, 0))), p.pty, False)
        else:
            rest = Ptr(p.root, p.path + (("sx", "1", repr(n)),), IntV(ex.pbits, False, p=n - 1), p.pty, False)
        some = Agg("adt", OPTION, 1, [Agg("tuple", None, None, [first, rest])])
        none = Agg("adt", OPTION, 0, [])
        return [(st, mk_ite(ge0(n - 1, st.facts), some, none))]

    def s_slice_iter(self, ctx, st):
        """slice::iter | slice::iter_mut | slice::chunks_exact_mut | slice::chunks_exact"""
        name = ctx.callee["name"]
        ex = ctx.ex
        if name.startswith("chunks"):
            # the chunks borrow the slice mutably: its contents are unknown while (and after) they live
            p = ctx.args[0]
            if name.endswith("_mut"):
                cur = ex.read(st, p.root, p.path, p.pty)
                ex.write(st, p.root, p.path, ex.havoc_like(cur, "chunks"), p.pty)
        fields = list(ctx.args)
        if name.startswith("chunks_exact"):
            fields.append(IntV(ex.pbits, False, p=ZERO))       # chunks handed out so far
        return [(st, Agg("adt", "core::slice::" + name, 0, fields, ctx.dest_ty))]

    # ------------------------------------------------------------------ generic traits
    def s_clone(self, ctx, st):
        """core::clone::Clone::clone"""
        if ctx.r["kind"] == "body":
            return None
        return [(st, self.deref_arg(ctx, st, ctx.args[0]))]

    def val_eq(self, ctx, st, a, b):
        ex = ctx.ex
        if isinstance(a, IntV) and isinstance(b, IntV):
            return cmp_eq(a.poly(), b.poly(), st.facts)
        if isinstance(a, BoolV) and isinstance(b, BoolV):
            return ONE - (a.p + b.p - 2 * (a.p * b.p))
        if isinstance(a, ITE):
            return a.c * self.val_eq(ctx, st, a.a, b) + (ONE - a.c) * self.val_eq(ctx, st, a.b, b)
        if isinstance(b, ITE):
            return self.val_eq(ctx, st, b, a)
        if isinstance(a, SymV) and a.ty.get("k") == "adt" and ex.adt(a.ty["def"])["kind"] == "struct":
            a = ex.expand_sym(a)
        if isinstance(b, SymV) and b.ty.get("k") == "adt" and ex.adt(b.ty["def"])["kind"] == "struct":
            b = ex.expand_sym(b)
        if isinstance(a, SymV) and isinstance(b, SymV) and a.name == b.name:
            return ONE
        if isinstance(a, (Agg, SymV)) and isinstance(b, (Agg, SymV)):
            ta = a.ty if isinstance(a, SymV) else None
            is_enum = False
            for x in (a, b):
                d = x.name if isinstance(x, Agg) else (x.ty.get("def") if x.ty.get("k") == "adt" else None)
                if isinstance(x, Agg) and x.kind != "adt":
                    d = None
                if d is not None and ex.adt(d)["kind"] == "enum":
                    is_enum = True
            if is_enum:
                res = ZERO
                for ca, va, fa in self.split_enum(ex, st, a):
                    for cb, vb, fb in self.split_enum(ex, st, b):
                        if va != vb:
                            continue
                        e = ca * cb
                        for x, y in zip(fa, fb):
                            e = e * self.val_eq(ctx, st, x, y)
                        res = res + e
                return res
            if isinstance(a, Agg) and isinstance(b, Agg) and len(a.fields) == len(b.fields):
                e = ONE
                for x, y in zip(a.fields, b.fields):
                    e = e * self.val_eq(ctx, st, x, y)
                return e
        if vkey(a) == vkey(b):
            return ONE
        return Poly.atom(("b", "eq(%r,%r)" % (a, b)))

    def s_eq(self, ctx, st):
        """core::cmp::PartialEq::eq | core::cmp::PartialEq::ne"""
        if ctx.r["kind"] == "body":
            return None
        a = self.deref_arg(ctx, st, ctx.args[0])
        b = self.deref_arg(ctx, st, ctx.args[1])
        while isinstance(a, Ptr) and isinstance(b, Ptr):
            a, b = self.deref_arg(ctx, st, a), self.deref_arg(ctx, st, b)
        e = self.val_eq(ctx, st, a, b)
        if ctx.callee["name"] == "ne":
            e = ONE - e
        return [(st, BoolV(e))]

    # ------------------------------------------------------------------ iterators
    def s_adaptor(self, ctx, st):
        """core::iter::traits::iterator::Iterator::map | core::iter::traits::iterator::Iterator::take | core::iter::traits::iterator::Iterator::take_while | core::iter::traits::iterator::Iterator::filter | core::iter::traits::iterator::Iterator::skip | core::iter::traits::iterator::Iterator::by_ref | core::iter::sources::once::once | core::iter::sources::repeat::repeat | core::iter::sources::repeat_n::repeat_n | core::iter::traits::iterator::Iterator::enumerate | core::iter::traits::iterator::Iterator::zip | core::iter::traits::iterator::Iterator::copied | core::iter::traits::iterator::Iterator::cloned | core::iter::traits::iterator::Iterator::flatten | core::iter::traits::iterator::Iterator::rev | core::iter::traits::iterator::Iterator::chain | core::iter::traits::iterator::Iterator::step_by | core::iter::traits::iterator::Iterator::skip_while | core::iter::traits::iterator::Iterator::peekable | core::iter::traits::iterator::Iterator::fuse | core::iter::traits::iterator::Iterator::inspect"""
        if ctx.r["kind"] == "body":
            return None
        name = ctx.callee["name"]
        if name == "by_ref":
            return [(st, ctx.args[0])]
        args = list(ctx.args)
        if name == "zip" and len(args) == 2 and isinstance(args[1], Agg) and args[1].kind == "array":
            # zip(other: IntoIterator): an array argument is iterated by value
            args[1] = Agg("adt", "core::array::into_iter", 0, [args[1]], None)
        if name == "enumerate" and len(args) == 1:
            args.append(IntV(ctx.ex.pbits, False, p=ZERO))          # the running index
        return [(st, Agg("adt", "core::iter::" + name, 0, args, ctx.dest_ty))]

    def s_from_fn(self, ctx, st):
        """core::iter::sources::from_fn::from_fn"""
        return [(st, Agg("adt", "core::iter::from_fn", 0, [ctx.args[0]], ctx.dest_ty))]

    def s_range_contains(self, ctx, st):
        """core::ops::range::Range::contains | core::ops::range::RangeInclusive::contains | core::ops::range::RangeBounds::contains"""
        r = self.deref_arg(ctx, st, ctx.args[0])
        x = self.deref_arg(ctx, st, ctx.args[1])
        if not (isinstance(r, Agg) and (r.name or "").startswith("core::ops::range::Range") and len(r.fields) >= 2
                and isinstance(r.fields[0], IntV) and isinstance(r.fields[1], IntV) and isinstance(x, IntV)):
            return None
        lo, hi, px = r.fields[0].poly(), r.fields[1].poly(), x.poly()
        c = cmp_le(lo, px, st.facts) * (cmp_le(px, hi, st.facts) if r.name.endswith("RangeInclusive") else cmp_lt(px, hi, st.facts))
        return [(st, BoolV(st.facts.simplify(c)))]

    def s_slice_contains(self, ctx, st):
        """slice::contains"""
        # membership of a plain value (integer, or a field-less enum variant) in a slice of known elements
        sl = self.deref_arg(ctx, st, ctx.args[0])
        x = self.deref_arg(ctx, st, ctx.args[1])
        if not (isinstance(sl, Agg) and sl.kind == "array"):
            return None
        if all(isinstance(e, IntV) for e in sl.fields) and isinstance(x, IntV):
            acc = ZERO
            for e in sl.fields:
                c = cmp_eq(e.poly(), x.poly(), st.facts)
                acc = acc + c - acc * c
            return [(st, BoolV(st.facts.simplify(acc)))]
        if all(isinstance(e, Agg) and e.kind == "adt" and not e.fields and e.variant is not None for e in sl.fields) and sl.fields:
            name = sl.fields[0].name
            xt = x.ty.get("def") if isinstance(x, SymV) and x.ty is not None else getattr(x, "name", None)
            if xt != name or name not in ctx.ex.F.adts or any(v["fields"] for v in ctx.ex.F.adts[name]["variants"]):
                return None
            have = set(e.variant for e in sl.fields)
            acc = ZERO
            for c, var, _fs in self.split_enum(ctx.ex, st, x):
                if var in have:
                    acc = acc + c
            return [(st, BoolV(st.facts.simplify(acc)))]
        return None

    def s_range_new(self, ctx, st):
        """core::ops::range::RangeInclusive::new"""
        return [(st, Agg("adt", "core::ops::range::RangeInclusive", 0, [ctx.args[0], ctx.args[1], BoolV(ZERO)], ctx.dest_ty))]

    def s_into_iter(self, ctx, st):
        """core::iter::traits::collect::IntoIterator::into_iter"""
        if ctx.r["kind"] == "body":
            return None
        sty = ctx.gargs[0]
        k = sty.get("k")
        v = ctx.args[0]
        if k == "adt":
            d = sty["def"]
            if d.startswith("core::iter::") or d.startswith("core::ops::range::") or d.startswith("core::slice::") \
                    or d.startswith("core::array::iter") or ctx.ex.F.impls_by_trait.get("core::iter::traits::iterator::Iterator") and any(
                        i["self_ty"].get("def") == d for i in ctx.ex.F.impls_by_trait["core::iter::traits::iterator::Iterator"]):
                return [(st, v)]
            if isinstance(v, Agg) and v.name and v.name.startswith(("core::iter::", "core::slice::")):
                return [(st, v)]
        if k == "array":
            return [(st, Agg("adt", "core::array::into_iter", 0, [v], ctx.dest_ty))]
        if k == "ref" and sty["ty"].get("k") in ("slice", "array"):
            return [(st, Agg("adt", "core::slice::iter", 0, [v], ctx.dest_ty))]
        if isinstance(v, Agg) and v.kind == "adt" and v.name.startswith(("core::iter::", "core::slice::", "core::array::")):
            return [(st, v)]
        # abstract IntoIterator (a caller-supplied stream): a pure term of its argument
        return [(st, Agg("adt", "core::iter::into_iter", 0, [v], ctx.dest_ty))]

    def s_iter_next(self, ctx, st):
        """core::iter::traits::iterator::Iterator::next | core::iter::traits::iterator::Iterator::nth"""
        if ctx.r["kind"] == "body":
            return None
        ex = ctx.ex
        itv = self.deref_arg(ctx, st, ctx.args[0]) if ctx.args else None
        if ctx.callee["name"] == "next" and isinstance(itv, Agg) and isinstance(ctx.args[0], Ptr):
            xr = self.exact_next(ctx, st, ctx.args[0], itv)
            if xr is not None:
                return xr
        if ctx.callee["name"] == "next" and isinstance(itv, Agg) and itv.name == "core::iter::take" and len(itv.fields) >= 2 \
                and isinstance(itv.fields[1], IntV) and isinstance(ctx.args[0], Ptr):
            z = self.take_next(ctx, st, itv)
            if z is not None:
                return z
        if ctx.callee["name"] == "next" and isinstance(itv, Agg) and itv.name in ("core::iter::map", "core::iter::copied", "core::iter::cloned", "core::iter::enumerate") \
                and itv.fields and isinstance(ctx.args[0], Ptr):
            z = self.adaptor_next(ctx, st, itv)
            if z is not None:
                return z
        if ctx.callee["name"] == "next" and isinstance(itv, Agg) and itv.name == "core::iter::from_fn" and itv.fields and isinstance(ctx.args[0], Ptr):
            # FromFn::next calls the stored closure (FnMut, through a reference to the field that holds it)
            p0 = ctx.args[0]
            fptr = Ptr(p0.root, tuple(p0.path) + (("f", 0, None),), None, getattr(itv.fields[0], "ty", None), True)
            return self.call_f(ctx, st, fptr, [])
        if ctx.callee["name"] == "next" and isinstance(itv, Agg) and itv.name == "core::iter::zip" and len(itv.fields) == 2 \
                and isinstance(ctx.args[0], Ptr):
            z = self.zip_next(ctx, st, itv)
            if z is not None:
                return z
        if isinstance(itv, Agg) and (itv.name or "").startswith("core::iter::") and itv.name not in ("core::iter::filter", "core::iter::into_iter"):
            # an adaptor reaching this point is treated as an opaque source of items; a closure inside it would never be
            # run. That is only acceptable if the closure cannot do anything but compute (no &mut, no hardware handle).
            def closures(v, depth=0):
                if depth > 5:
                    return
                if isinstance(v, Agg):
                    if v.kind == "closure":
                        yield v
                    for f_ in v.fields:
                        yield from closures(f_, depth + 1)
            for cl in closures(itv):
                if any(ex.reaches_effects(f_) for f_ in cl.fields) and not self.closure_runs_pure(ctx, st, cl):
                    raise ex_undecided("next() on %s whose closure captures mutable state or a hardware handle: the interpreter "
                                       "would not run it" % itv.name)
        # a chunk iterator whose progress is tracked below is updated field by field, not havoced as a whole
        counted = ctx.callee["name"] == "next" and isinstance(itv, Agg) and itv.name in ("core::slice::chunks_exact", "core::slice::chunks_exact_mut") \
            and len(itv.fields) >= 3 and isinstance(itv.fields[0], Ptr) and isinstance(itv.fields[1], IntV) and isinstance(ctx.args[0], Ptr) \
            and self.ptr_len(ctx, st, itv.fields[0]) is not None
        exact_range = ctx.callee["name"] == "next" and isinstance(itv, Agg) and (itv.name or "") == "core::ops::range::Range" \
            and len(itv.fields) >= 2 and isinstance(itv.fields[0], IntV) and isinstance(itv.fields[1], IntV) and isinstance(ctx.args[0], Ptr)
        res = ex.abstract_call(st, ctx.fr, ctx.callee, ctx.r, ctx.args, ctx.dest_ty, ctx.span, pure=counted or exact_range)
        if ctx.callee["name"] == "next" and isinstance(itv, Agg) and (itv.name or "").startswith("core::ops::range::Range") \
                and len(itv.fields) >= 2 and isinstance(itv.fields[0], IntV) and isinstance(itv.fields[1], IntV) and isinstance(ctx.args[0], Ptr):
            # core::ops::Range / RangeInclusive over integers, modelled exactly: the event is kept (loop rules
            # count it), the iterator state is updated precisely instead of being havoced
            st2, ret = res[0]
            p = ctx.args[0]
            lo, hi = itv.fields[0], itv.fields[1]
            incl = itv.name.endswith("RangeInclusive")
            if incl:
                exh = itv.fields[2].p if len(itv.fields) > 2 and isinstance(itv.fields[2], BoolV) else ZERO
                more = (ONE - exh) * cmp_le(lo.poly(), hi.poly(), st2.facts)
                last = cmp_eq(lo.poly(), hi.poly(), st2.facts)
                new_lo = IntV(lo.bits, lo.signed, p=lo.poly() + more * (ONE - last))
                new_exh = BoolV(exh + (ONE - exh) * more * last)
                nv = Agg(itv.kind, itv.name, itv.variant, [mk_ite(more, new_lo, lo), hi, new_exh], itv.ty, itv.extra)
            else:
                more = cmp_lt(lo.poly(), hi.poly(), st2.facts)
                new_lo = IntV(lo.bits, lo.signed, p=lo.poly() + more)
                nv = None
                # (only the start changes: written alone, the end keeps its value across a loop - `0..args.len()`)
                ex.write(st2, p.root, tuple(p.path) + (("f", 0, None),), new_lo, None)
            if nv is not None:
                ex.write(st2, p.root, p.path, nv, p.pty)
            if isinstance(ret, SymV):
                some = ex.variant_cond(ret, 1)
                # the result is Some(old start) exactly when there was an element left
                st2.facts.assume(some * more + (ONE - some) * (ONE - more), 1)
                item = ex.expand_sym(ret, 1).fields[0]
                if isinstance(item, IntV):
                    st2.facts.add_conditional(some, item.poly() - lo.poly())
                    st2.facts.add_conditional(some, lo.poly() - item.poly())
                    st2.facts.add_conditional(some, (hi.poly() if incl else hi.poly() - 1) - item.poly())
            return res
        if ctx.callee["name"] == "next" and isinstance(itv, Agg) and itv.name in ("core::slice::chunks_exact", "core::slice::chunks_exact_mut") \
                and len(itv.fields) >= 2 and isinstance(itv.fields[0], Ptr) and isinstance(itv.fields[1], IntV) and isinstance(ctx.args[0], Ptr):
            # chunks_exact(n) of a slice of symbolic length: it yields exactly floor(len / n) chunks. The event is kept;
            # the number of chunks handed out so far is tracked in a trailing field.
            st2, ret = res[0]
            ln = self.ptr_len(ctx, st2, itv.fields[0])
            if ln is not None and isinstance(ret, SymV):
                total = ex.binop(st2, ctx.fr, "Div", IntV(ex.pbits, False, p=ln), IntV(ex.pbits, False, p=itv.fields[1].poly()))
                used = itv.fields[2].poly() if len(itv.fields) > 2 and isinstance(itv.fields[2], IntV) else ZERO
                # (a ChunksExact never hands out more than floor(len / n) chunks: true of the iterator whatever the program does)
                st2.facts.add_fact_ge0(total.poly() - used)
                more = cmp_lt(used, total.poly(), st2.facts)
                p = ctx.args[0]
                if counted:
                    ex.write(st2, p.root, tuple(p.path) + (("f", 2, None),), IntV(ex.pbits, False, p=used + more), None)
                else:
                    g = list(itv.fields[:2]) + [IntV(ex.pbits, False, p=used + more)]
                    ex.write(st2, p.root, p.path, Agg(itv.kind, itv.name, itv.variant, g, itv.ty, itv.extra), p.pty)
                some = ex.variant_cond(ret, 1)
                st2.facts.assume(some * more + (ONE - some) * (ONE - more), 1)
                # every chunk has exactly n elements
                cl = sym_int("len(%s@Some.0)" % ret.name, ex.pbits, False)
                st2.facts.add_conditional(some, cl - itv.fields[1].poly())
                st2.facts.add_conditional(some, itv.fields[1].poly() - cl)
            return res
        if ctx.callee["name"] == "next" and isinstance(itv, Agg) and itv.name == "core::iter::filter" and len(itv.fields) == 2:
            # core::iter::Filter: every item it yields satisfies the predicate
            st2, ret = res[0]
            if isinstance(ret, SymV):
                some = ex.variant_cond(ret, 1)
                item = ex.expand_sym(ret, 1).fields[0]
                ex.counter += 1
                root = ("O", "filter-item#%d" % ex.counter)
                st2.mem[root] = item
                ex.root_types[root] = getattr(item, "ty", None)
                pv = self.apply_fn(ctx, st2, itv.fields[1], [Ptr(root, (), None, getattr(item, "ty", None), False)])
                if isinstance(pv, BoolV):
                    st2.facts.assume((ONE - some) + some * pv.p, 1)
        return res

    # exact models of iterators over data of known length (constant tables, arrays, integer ranges): no event, the
    # item and the exhaustion are concrete. Iterator state lives in extra trailing fields of the adaptor value.
    def const_len_of(self, ctx, st, p):
        n = self.ptr_len(ctx, st, p) if isinstance(p, Ptr) else None
        return n.const_value() if n is not None else None

    def concrete_len(self, ctx, st, itv, depth=0):
        """remaining number of items of an exactly modelled iterator value, or None"""
        if depth > 5 or not isinstance(itv, Agg):
            return None
        nm = itv.name or ""
        f = itv.fields

        def idx(k):
            return (f[k].const() if len(f) > k and isinstance(f[k], IntV) else 0) or 0
        if nm == "core::array::into_iter" and f and isinstance(f[0], Agg) and f[0].kind == "array":
            return max(0, len(f[0].fields) - idx(1))
        if nm in ("core::slice::iter", "core::slice::iter_mut") and f:
            n = self.const_len_of(ctx, st, f[0])
            return None if n is None else max(0, n - idx(1))
        if nm in ("core::slice::chunks_exact", "core::slice::chunks_exact_mut") and len(f) >= 2 and isinstance(f[1], IntV):
            n, c = self.const_len_of(ctx, st, f[0]), f[1].const()
            return None if n is None or not c else max(0, n // c - idx(2))
        if nm.startswith("core::ops::range::Range") and len(f) >= 2 and isinstance(f[0], IntV) and isinstance(f[1], IntV):
            lo, hi = f[0].const(), f[1].const()
            if lo is None or hi is None:
                return None
            if nm.endswith("RangeInclusive"):
                exh = f[2].const() if len(f) > 2 and isinstance(f[2], BoolV) else 0
                return 0 if exh or lo > hi else hi - lo + 1
            return max(0, hi - lo)
        if nm in ("core::iter::enumerate", "core::iter::copied", "core::iter::cloned", "core::iter::map") and f:
            inner = self.deref_arg(ctx, st, f[0])
            return self.concrete_len(ctx, st, inner, depth + 1)
        if nm == "core::iter::zip" and len(f) == 2:
            a = self.concrete_len(ctx, st, self.deref_arg(ctx, st, f[0]), depth + 1)
            b = self.concrete_len(ctx, st, self.deref_arg(ctx, st, f[1]), depth + 1)
            return None if a is None or b is None else min(a, b)
        return None

    def exact_next(self, ctx, st, p, itv):
        """next() of an exactly modelled iterator stored at pointer p: -> [(state, Option value)] or None"""
        ex = ctx.ex
        nm = itv.name or ""
        f = list(itv.fields)
        dt = ex.normalize(ctx.dest_ty) if ctx.dest_ty is not None else None
        item_ty = dt["args"][0] if dt and dt.get("k") == "adt" and dt.get("args") else None

        def some(x):
            return Agg("adt", OPTION, 1, [x], dt)
        none = Agg("adt", OPTION, 0, [], dt)

        def idx(k):
            return (f[k].const() if len(f) > k and isinstance(f[k], IntV) else 0) or 0

        def store(k, val):
            g = list(f)
            while len(g) <= k:
                g.append(IntV(ex.pbits, False, p=ZERO))
            g[k] = IntV(ex.pbits, False, p=Poly.const(val))
            ex.write(st, p.root, p.path, Agg(itv.kind, itv.name, itv.variant, g, itv.ty, itv.extra), p.pty)
        if nm == "core::array::into_iter":
            if self.concrete_len(ctx, st, itv) is None:
                return None
            i = idx(1)
            if i >= len(f[0].fields):
                return [(st, none)]
            store(1, i + 1)
            return [(st, some(f[0].fields[i]))]
        if nm in ("core::slice::iter", "core::slice::iter_mut"):
            if self.concrete_len(ctx, st, itv) is None or not isinstance(f[0], Ptr):
                return None
            n, i = self.const_len_of(ctx, st, f[0]), idx(1)
            if i >= n:
                return [(st, none)]
            store(1, i + 1)
            ety = item_ty.get("ty") if item_ty and item_ty.get("k") == "ref" else None
            return [(st, some(Ptr(f[0].root, self.elem_path(f[0], i), None, ety, f[0].mut and nm.endswith("_mut"))))]
        if nm in ("core::slice::chunks_exact", "core::slice::chunks_exact_mut"):
            if self.concrete_len(ctx, st, itv) is None or not isinstance(f[0], Ptr):
                return None
            n, c, i = self.const_len_of(ctx, st, f[0]), f[1].const(), idx(2)
            if i >= n // c:
                return [(st, none)]
            store(2, i + 1)
            sp = f[0]
            base, path = 0, sp.path
            if path and path[-1][0] == "s":
                base, path = path[-1][1], path[:-1]
            ety = item_ty["ty"].get("ty") if item_ty and item_ty.get("k") == "ref" and item_ty["ty"].get("k") == "slice" else None
            q = Ptr(sp.root, path + (("s", base + i * c, base + (i + 1) * c),), IntV(ex.pbits, False, p=Poly.const(c)),
                    {"k": "slice", "ty": ety}, sp.mut and nm.endswith("_mut"))
            return [(st, some(q))]
        if nm.startswith("core::ops::range::Range") and self.concrete_len(ctx, st, itv) is not None:
            lo, hi = f[0].const(), f[1].const()
            incl = nm.endswith("RangeInclusive")
            if self.concrete_len(ctx, st, itv) == 0:
                return [(st, none)]
            g = list(f)
            if incl and lo == hi:
                while len(g) <= 2:
                    g.append(BoolV(ZERO))
                g[2] = BoolV(ONE)
            else:
                g[0] = IntV(f[0].bits, f[0].signed, p=Poly.const(lo + 1))
            ex.write(st, p.root, p.path, Agg(itv.kind, itv.name, itv.variant, g, itv.ty, itv.extra), p.pty)
            return [(st, some(IntV(f[0].bits, f[0].signed, p=Poly.const(lo))))]
        if nm in ("core::iter::enumerate", "core::iter::copied", "core::iter::cloned", "core::iter::map"):
            if self.concrete_len(ctx, st, itv) is None:
                return None
            inner = f[0]
            recv = inner if isinstance(inner, Ptr) else Ptr(p.root, tuple(p.path) + (("f", 0, None),), None, getattr(inner, "ty", None), True)
            iv = self.deref_arg(ctx, st, recv)
            if not isinstance(iv, Agg):
                return None
            # item type of the inner iterator is not needed by the exact models below (they build values directly)
            c2 = type(ctx)(ex, ctx.fr, ctx.callee, ctx.r, [recv], None, ctx.span, ctx.key)
            r = self.exact_next(c2, st, recv, iv)
            if r is None or len(r) != 1:
                return None
            s2, ov = r[0]
            if ov.variant == 0:
                return [(s2, none)]
            x = ov.fields[0]
            if nm == "core::iter::enumerate":
                # re-read: the inner update rewrote our own value when the inner iterator is stored inline
                cur = ex.read(s2, p.root, p.path, p.pty)
                g = list(cur.fields) if isinstance(cur, Agg) else list(f)
                cnt = (g[1].const() if len(g) > 1 and isinstance(g[1], IntV) else 0) or 0
                while len(g) <= 1:
                    g.append(IntV(ex.pbits, False, p=ZERO))
                g[1] = IntV(ex.pbits, False, p=Poly.const(cnt + 1))
                ex.write(s2, p.root, p.path, Agg(itv.kind, itv.name, itv.variant, g, itv.ty, itv.extra), p.pty)
                tty = item_ty if item_ty and item_ty.get("k") == "tuple" else None
                return [(s2, some(Agg("tuple", None, None, [IntV(ex.pbits, False, p=Poly.const(cnt)), x], tty)))]
            if nm in ("core::iter::copied", "core::iter::cloned"):
                return [(s2, some(self.deref_arg(ctx, s2, x)))]
            return [(s3, some(v)) for s3, v in self.call_f(ctx, s2, f[1], [x])]
        return None

    def s_iter_consumer(self, ctx, st):
        """core::iter::traits::iterator::Iterator::try_for_each | core::iter::traits::iterator::Iterator::for_each | core::iter::traits::iterator::Iterator::any | core::iter::traits::iterator::Iterator::all | core::iter::traits::iterator::Iterator::fold | core::iter::traits::iterator::Iterator::try_fold | core::iter::traits::iterator::Iterator::find | core::iter::traits::iterator::Iterator::position"""
        if ctx.r["kind"] == "body":
            return None
        ex = ctx.ex
        name = ctx.callee["name"]
        rec = ex.F.bodies.get("aim_prelude::" + name)
        if rec is None:
            return None
        callee = {"def": rec["id"], "name": name, "kind": "Fn", "args": list(ctx.gargs), "container": {"kind": "mod"}}
        return ex.call(st, ctx.fr, callee, {}, list(ctx.args), ctx.dest_ty, ctx.span)

    def s_from_output(self, ctx, st):
        """core::ops::try_trait::Try::from_output"""
        sty = ctx.gargs[0]
        if sty.get("k") != "adt":
            return None
        if sty["def"] == RESULT:
            return [(st, Agg("adt", RESULT, 0, [ctx.args[0]], ctx.ex.normalize(sty)))]
        if sty["def"] == OPTION:
            return [(st, Agg("adt", OPTION, 1, [ctx.args[0]], ctx.ex.normalize(sty)))]
        if sty["def"] == CFLOW:
            return [(st, Agg("adt", CFLOW, 0, [ctx.args[0]], ctx.ex.normalize(sty)))]
        return None

    def closure_runs_pure(self, ctx, st, cl):
        """run the closure once on fresh symbolic arguments in a scratch state: it is pure if it performs no abstract
        call (hardware operation), no unmodelled call and writes nothing outside its own frame"""
        ex = ctx.ex
        rec = ex.F.bodies.get(cl.name)
        if rec is None:
            return False
        body = rec["body"]
        n = int(body["arg_count"])
        probe = st.fork()
        args = []
        for i in range(2, n + 1):
            args.append(ex.mk_sym(ex.normalize(T.subst(body["locals"][i]["ty"], cl.extra or {})), ex.fresh("probe-arg")))
        log = set()
        saved_log, ex.write_log = ex.write_log, log
        n_term, n_notes, n_tr = len(ex.terminated), len(ex.notes), len(probe.trace)
        ok = True
        try:
            res = self.call_f(ctx, probe, cl, args)
            for s2, _v in res:
                if any(getattr(it, "kind", None) == "call" for it in s2.trace[n_tr:]):
                    ok = False
            if len(ex.notes) > n_notes:
                ok = False
            for (root, _p) in log:
                if root[0] == "O" or (root[0] == "L" and root in st.mem):
                    ok = False
        except Exception:
            ok = False
        finally:
            ex.write_log = saved_log
            del ex.terminated[n_term:]
            del ex.notes[n_notes:]
        return ok

    def take_next(self, ctx, st, itv):
        """Take::next: nothing once the limit is used up (the inner iterator is not touched), otherwise one inner
        `next` and the limit goes down by one"""
        ex = ctx.ex
        p = ctx.args[0]
        inner = itv.fields[0]
        if not isinstance(inner, (Agg, Ptr)):
            return None
        n = itv.fields[1]
        dt = ex.normalize(ctx.dest_ty) if ctx.dest_ty is not None else None
        left = ge0(n.poly() - 1, st.facts)
        out = []
        s0 = st.fork()
        if s0.facts.assume(left, 0):
            out.append((s0, Agg("adt", OPTION, 0, [], dt)))
        if not st.facts.assume(left, 1):
            return out
        recv = inner if isinstance(inner, Ptr) else Ptr(p.root, tuple(p.path) + (("f", 0, None),), None, getattr(inner, "ty", None), True)
        ity = recv.pty if isinstance(inner, Ptr) and recv.pty is not None else getattr(inner, "ty", None)
        r2 = dict(ctx.r)
        if ity is not None:
            r2["self_ty"] = ity
            r2["args"] = [ity]
        ex.write(st, p.root, tuple(p.path) + (("f", 1, None),), IntV(n.bits, n.signed, p=n.poly() - 1), None)
        c2 = type(ctx)(ex, ctx.fr, ctx.callee, r2, [recv], ctx.dest_ty, ctx.span, ctx.key)
        out.extend(self.s_iter_next(c2, st))
        return out

    def adaptor_next(self, ctx, st, itv):
        """Map / Copied / Cloned::next over an iterator that is not modelled exactly: one `next` of the inner iterator
        (an event of its own), then the closure / the dereference on the item"""
        ex = ctx.ex
        p = ctx.args[0]
        dt = ex.normalize(ctx.dest_ty) if ctx.dest_ty is not None else None
        inner = itv.fields[0]
        recv = inner if isinstance(inner, Ptr) else Ptr(p.root, tuple(p.path) + (("f", 0, None),), None, getattr(inner, "ty", None), True)
        ity = recv.pty if isinstance(inner, Ptr) and recv.pty is not None else getattr(inner, "ty", None)
        r2 = dict(ctx.r)
        if ity is not None:
            r2["self_ty"] = ity
            r2["args"] = [ity]
        # the inner iterator's item type, from its own (documented) signature
        item = None
        if ity is not None:
            item = ex.normalize({"k": "proj", "def": "core::iter::traits::iterator::Iterator::Item", "name": "Item",
                                 "trait": "core::iter::traits::iterator::Iterator", "args": [ity]})
            if item.get("k") == "proj":
                item = None
        if item is None:
            return None
        oty = {"k": "adt", "def": OPTION, "args": [item]}
        c2 = type(ctx)(ex, ctx.fr, ctx.callee, r2, [recv], oty, ctx.span, ctx.key)
        out = []
        for (s1, ra) in self.s_iter_next(c2, st):
            try:
                ca = ex.variant_cond(ra, 1)
            except Exception:
                return None
            s_none = s1.fork()
            if s_none.facts.assume(ONE - ca, 1):
                out.append((s_none, Agg("adt", OPTION, 0, [], dt)))
            if not s1.facts.assume(ca, 1):
                continue
            x = ex.expand_sym(ra, 1).fields[0] if isinstance(ra, SymV) else ra.fields[0]
            if itv.name == "core::iter::map":
                for s2, v in self.call_f(ctx, s1, itv.fields[1], [x]):
                    out.append((s2, Agg("adt", OPTION, 1, [v], dt)))
            elif itv.name == "core::iter::enumerate":
                # (index, item): the index counts the items handed out so far and is kept in a second field
                cur = ex.read(s1, p.root, p.path, p.pty)
                cf = cur.fields[1] if isinstance(cur, Agg) and len(cur.fields) > 1 and isinstance(cur.fields[1], IntV) else IntV(ex.pbits, False, p=ZERO)
                ex.write(s1, p.root, tuple(p.path) + (("f", 1, None),), IntV(ex.pbits, False, p=cf.poly() + ONE), None)
                tty = dt["args"][0] if dt and dt.get("args") and dt["args"][0].get("k") == "tuple" else None
                out.append((s1, Agg("adt", OPTION, 1, [Agg("tuple", None, None, [IntV(ex.pbits, False, p=cf.poly()), x], tty)], dt)))
            else:
                out.append((s1, Agg("adt", OPTION, 1, [self.deref_arg(ctx, s1, x)], dt)))
        return out

    def zip_next(self, ctx, st, itv):
        """core::iter::Zip::next, exactly as the library does it: pull from the first iterator; if it is exhausted
        yield None; pull from the second; if THAT is exhausted yield None - the item already taken from the first
        is dropped. Each inner pull is a `next` of its own (an event, or a modelled iterator)."""
        ex = ctx.ex
        dt = ex.normalize(ctx.dest_ty) if ctx.dest_ty is not None else None
        try:
            tup = dt["args"][0]
            tys = tup["tys"]
        except (KeyError, TypeError, IndexError):
            return None
        if len(tys) != 2:
            return None
        p = ctx.args[0]
        out = []

        def pull(st_, k):
            f = itv.fields[k]
            recv = f if isinstance(f, Ptr) else Ptr(p.root, tuple(p.path) + (("f", k, None),), None, getattr(f, "ty", None), True)
            oty = {"k": "adt", "def": OPTION, "args": [tys[k]]}
            sty = recv.pty if isinstance(f, Ptr) and recv.pty is not None else getattr(f, "ty", None)
            r2 = dict(ctx.r)
            if sty is not None:
                r2["self_ty"] = sty
                r2["args"] = [sty]
            c2 = type(ctx)(ex, ctx.fr, ctx.callee, r2, [recv], oty, ctx.span, ctx.key)
            return self.s_iter_next(c2, st_)

        for (s1, ra) in pull(st, 0):
            ca = ex.variant_cond(ra, 1)
            s_none = s1.fork()
            if s_none.facts.assume(ONE - ca, 1):
                out.append((s_none, Agg("adt", OPTION, 0, [], dt)))
            if not s1.facts.assume(ca, 1):
                continue
            xa = ex.expand_sym(ra, 1).fields[0] if isinstance(ra, SymV) else ra.fields[0]
            for (s2, rb) in pull(s1, 1):
                cb = ex.variant_cond(rb, 1)
                s_drop = s2.fork()
                if s_drop.facts.assume(ONE - cb, 1):
                    out.append((s_drop, Agg("adt", OPTION, 0, [], dt)))
                if not s2.facts.assume(cb, 1):
                    continue
                xb = ex.expand_sym(rb, 1).fields[0] if isinstance(rb, SymV) else rb.fields[0]
                out.append((s2, Agg("adt", OPTION, 1, [Agg("tuple", None, None, [xa, xb], tup)], dt)))
        return out

    # ------------------------------------------------------------------ embedded-graphics-core
    EG = "embedded_graphics_core::"
    POINT = "embedded_graphics_core::geometry::point::Point"
    SIZE = "embedded_graphics_core::geometry::size::Size"
    RECT = "embedded_graphics_core::primitives::rectangle::Rectangle"

    def color_widths(self, ctx, ty):
        """(wr, wg, wb) channel widths of an embedded-graphics RgbColor type, with the raw layout
        r:g:b (r most significant) cross-checked against the type's RED/GREEN/BLUE constants."""
        d = ty.get("def")
        cs = {c["name"]: int(c["val"]) for c in ctx.ex.F.raw.get("impl_consts", []) if c["self_ty"].get("def") == d}
        try:
            wr, wg, wb = [bin(cs[k]).count("1") for k in ("MAX_R", "MAX_G", "MAX_B")]
        except KeyError:
            return None
        if cs.get("RED") != cs["MAX_R"] << (wg + wb) or cs.get("GREEN") != cs["MAX_G"] << wb or cs.get("BLUE") != cs["MAX_B"]:
            return None
        return wr, wg, wb

    @staticmethod
    def color_name(v):
        if isinstance(v, SymV):
            return v.name
        return None

    def s_rgb_channel(self, ctx, st):
        """embedded_graphics_core::pixelcolor::rgb_color::RgbColor::r | embedded_graphics_core::pixelcolor::rgb_color::RgbColor::g | embedded_graphics_core::pixelcolor::rgb_color::RgbColor::b"""
        v = self.deref_arg(ctx, st, ctx.args[0])
        ws = self.color_widths(ctx, ctx.gargs[0])
        nm = self.color_name(v)
        if ws is None or nm is None:
            return None
        ch = ctx.callee["name"]
        w = ws["rgb".index(ch)]
        return [(st, IntV(8, False, p=sym_int("%s.%s" % (nm, ch), w, False)))]

    def s_color_to_bytes(self, ctx, st):
        """embedded_graphics_core::pixelcolor::raw::to_bytes::ToBytes::to_be_bytes | embedded_graphics_core::pixelcolor::raw::to_bytes::ToBytes::to_le_bytes | embedded_graphics_core::pixelcolor::raw::to_bytes::ToBytes::to_ne_bytes"""
        v = ctx.args[0]
        ws = self.color_widths(ctx, ctx.gargs[0])
        nm = self.color_name(v)
        if ws is None or nm is None:
            return None
        wr, wg, wb = ws
        bits = []
        for ch, w in (("b", wb), ("g", wg), ("r", wr)):
            a = ("i", "%s.%s" % (nm, ch), w, False)
            bits.extend(Poly.atom(("bit", a, i)) for i in range(w))
        nbytes = (len(bits) + 7) // 8
        bits = bits + [ZERO] * (nbytes * 8 - len(bits))
        by = [IntV(8, False, bv=bits[8 * i:8 * i + 8]) for i in range(nbytes)]   # little endian order
        name = ctx.callee["name"]
        if name == "to_be_bytes" or (name == "to_ne_bytes" and ctx.ex.F.endian == "big"):
            by = list(reversed(by))
        return [(st, Agg("array", None, None, by, {"k": "array", "ty": T.U8, "len": {"k": "const", "val": nbytes}}))]

    def s_color_into_storage(self, ctx, st):
        """embedded_graphics_core::pixelcolor::IntoStorage::into_storage"""
        # the raw value r:g:b (r most significant) in the smallest unsigned integer that holds it
        v = ctx.args[0]
        ws = self.color_widths(ctx, ctx.gargs[0])
        nm = self.color_name(v)
        tb = ctx.ex.ibits(ctx.ex.normalize(ctx.dest_ty)) if ctx.dest_ty is not None else None
        if ws is None or nm is None or tb is None:
            return None
        wr, wg, wb = ws
        bits = []
        for ch, w in (("b", wb), ("g", wg), ("r", wr)):
            a = ("i", "%s.%s" % (nm, ch), w, False)
            bits.extend(Poly.atom(("bit", a, i)) for i in range(w))
        if len(bits) > tb[0]:
            return None
        bits = bits + [ZERO] * (tb[0] - len(bits))
        return [(st, IntV(tb[0], tb[1], bv=bits))]

    def s_int_sign(self, ctx, st):
        """int::is_negative | int::is_positive"""
        v = self.deref_arg(ctx, st, ctx.args[0])
        if not isinstance(v, IntV):
            return None
        p_ = v.poly()
        return [(st, BoolV(b_not(ge0(p_, st.facts)) if ctx.callee["name"] == "is_negative" else ge0(p_ - 1, st.facts)))]

    def s_size_new(self, ctx, st):
        """embedded_graphics_core::geometry::size::Size::new | embedded_graphics_core::geometry::point::Point::new"""
        name = self.SIZE if "size" in ctx.key else self.POINT
        return [(st, Agg("adt", name, 0, list(ctx.args), ctx.dest_ty))]

    def s_rect_new(self, ctx, st):
        """embedded_graphics_core::primitives::rectangle::Rectangle::new"""
        return [(st, Agg("adt", self.RECT, 0, list(ctx.args), ctx.dest_ty))]

    def rect_parts(self, ctx, st, r):
        """(x, y, w, h) polys of a Rectangle value"""
        ex = ctx.ex
        if isinstance(r, SymV):
            r = ex.expand_sym(r)
        tl, sz = r.fields
        if isinstance(tl, SymV):
            tl = ex.expand_sym(tl)
        if isinstance(sz, SymV):
            sz = ex.expand_sym(sz)
        return tl.fields[0].poly(), tl.fields[1].poly(), sz.fields[0].poly(), sz.fields[1].poly()

    def mk_rect(self, x, y, w, h):
        return Agg("adt", self.RECT, 0, [Agg("adt", self.POINT, 0, [IntV(32, True, p=x), IntV(32, True, p=y)]),
                                          Agg("adt", self.SIZE, 0, [IntV(32, False, p=w), IntV(32, False, p=h)])])

    def s_bounding_box(self, ctx, st):
        """embedded_graphics_core::geometry::Dimensions::bounding_box"""
        if ctx.r["kind"] == "body":
            return None
        # blanket impl for OriginDimensions: Rectangle::new(Point::zero(), self.size())
        sty = ctx.gargs[0]
        callee = mk_callee("embedded_graphics_core::geometry::OriginDimensions", "size", [sty])
        size = ctx.ex.call_single(st, ctx.fr, callee, {}, [ctx.args[0]], None, ctx.span)
        if isinstance(size, SymV):
            size = ctx.ex.expand_sym(size)
        zero = IntV(32, True, p=ZERO)
        return [(st, Agg("adt", self.RECT, 0, [Agg("adt", self.POINT, 0, [zero, zero]), size], ctx.dest_ty))]

    def s_intersection(self, ctx, st):
        """embedded_graphics_core::primitives::rectangle::Rectangle::intersection"""
        ex = ctx.ex
        a = self.deref_arg(ctx, st, ctx.args[0])
        b = self.deref_arg(ctx, st, ctx.args[1])
        ax, ay, aw, ah = self.rect_parts(ctx, st, a)
        bx, by, bw, bh = self.rect_parts(ctx, st, b)
        n = ex.fresh("isect")
        ix = sym_int(n + ".x", 32, True)
        iy = sym_int(n + ".y", 32, True)
        iw = sym_int(n + ".w", 32, False)
        ih = sym_int(n + ".h", 32, False)
        # contract: a non-empty result lies inside both operands; an empty one has zero size
        nonempty = ge0(iw - 1, st.facts) * ge0(ih - 1, st.facts)
        for (px, pw, qx, qw) in ((ix, iw, ax, aw), (ix, iw, bx, bw), (iy, ih, ay, ah), (iy, ih, by, bh)):
            st.facts.add_conditional(nonempty, px - qx)
            st.facts.add_conditional(nonempty, (qx + qw) - (px + pw))
        ex.alias_defs[("isect", n)] = {"a": (ax, ay, aw, ah), "b": (bx, by, bw, bh), "r": (ix, iy, iw, ih)}
        r = self.mk_rect(ix, iy, iw, ih)
        r.extra = ("intersection", n, vkey(a), vkey(b))
        return [(st, r)]

    def s_bottom_right(self, ctx, st):
        """embedded_graphics_core::primitives::rectangle::Rectangle::bottom_right"""
        r = self.deref_arg(ctx, st, ctx.args[0])
        x, y, w, h = self.rect_parts(ctx, st, r)
        nonempty = ge0(w - 1, st.facts) * ge0(h - 1, st.facts)
        some = Agg("adt", OPTION, 1, [Agg("adt", self.POINT, 0, [IntV(32, True, p=x + w - 1), IntV(32, True, p=y + h - 1)])])
        return [(st, mk_ite(nonempty, some, Agg("adt", OPTION, 0, [])))]

    def s_contains(self, ctx, st):
        """embedded_graphics_core::primitives::rectangle::Rectangle::contains"""
        r = self.deref_arg(ctx, st, ctx.args[0])
        p = ctx.args[1]
        if isinstance(p, SymV):
            p = ctx.ex.expand_sym(p)
        x, y, w, h = self.rect_parts(ctx, st, r)
        px, py = p.fields[0].poly(), p.fields[1].poly()
        f = st.facts
        c = ge0(px - x, f) * ge0(x + w - 1 - px, f) * ge0(py - y, f) * ge0(y + h - 1 - py, f)
        return [(st, BoolV(c))]

    # ------------------------------------------------------------------ heapless::Vec<T, N>
    HV = "heapless::vec::Vec"

    def hv_cap(self, ctx, ty):
        n = ty["args"][1] if ty and ty.get("k") == "adt" else None
        if n is not None and n.get("k") == "const":
            return Poly.const(int(n["val"]))
        return None

    def hv_len_of(self, ctx, st, v):
        ex = ctx.ex
        if isinstance(v, Agg) and v.name == self.HV:
            return v.fields[0].poly(), v.ty
        if isinstance(v, SymV):
            ln = sym_int("len(%s)" % v.name, ex.pbits, False)
            cap = self.hv_cap(ctx, v.ty)
            if cap is not None:
                st.facts.add_fact_ge0(cap - ln)
            return ln, v.ty
        if isinstance(v, ITE):
            la, ta = self.hv_len_of(ctx, st, v.a)
            lb, tb = self.hv_len_of(ctx, st, v.b)
            return v.c * la + (ONE - v.c) * lb, ta or tb
        raise ex_undecided("heapless Vec expected, got %r" % (v,))

    # content of a Vec: an uninterpreted sequence term - seq_empty, seq_push(content, item), seq_concat(content,
    # content) - or an opaque symbol for an unknown content. Only rules that compare contents look at it (C03).
    @staticmethod
    def seq_ty(ty):
        ety = ty["args"][0] if ty and ty.get("k") == "adt" and ty.get("args") else None
        return {"k": "slice", "ty": ety}

    def hv_content_of(self, ctx, v):
        if isinstance(v, Agg) and v.name == self.HV:
            if len(v.fields) > 1:
                return v.fields[1]
            return SymV(self.seq_ty(v.ty), ctx.ex.fresh("content"))
        if isinstance(v, SymV):
            return SymV(self.seq_ty(v.ty), "content(%s)" % v.name)
        if isinstance(v, ITE):
            return mk_ite(v.c, self.hv_content_of(ctx, v.a), self.hv_content_of(ctx, v.b))
        return SymV({"k": "slice", "ty": None}, ctx.ex.fresh("content"))

    def hv_get(self, ctx, st, p):
        """(len poly, type) of the heapless Vec behind pointer p (model: Agg [len, content])"""
        v = ctx.ex.read(st, p.root, p.path, p.pty)
        ln, ty = self.hv_len_of(ctx, st, v)
        if ty is None:
            ty = p.pty
        return ln, ty

    def hv_content(self, ctx, st, p):
        return self.hv_content_of(ctx, ctx.ex.read(st, p.root, p.path, p.pty))

    def hv_mk(self, ctx, ln, ty, content):
        return Agg("adt", self.HV, 0, [IntV(ctx.ex.pbits, False, p=ln), content], ty)

    def hv_set(self, ctx, st, p, ln, ty, content):
        ctx.ex.write(st, p.root, p.path, self.hv_mk(ctx, ln, ty, content), p.pty)

    def s_hv_queries(self, ctx, st):
        """heapless::vec::Vec::is_full | heapless::vec::Vec::is_empty | heapless::vec::Vec::len | heapless::vec::Vec::capacity"""
        p = ctx.args[0]
        if not isinstance(p, Ptr):
            return None
        ln, ty = self.hv_get(ctx, st, p)
        cap = self.hv_cap(ctx, ty)
        nm = ctx.callee["name"]
        if nm == "len":
            return [(st, IntV(ctx.ex.pbits, False, p=ln))]
        if nm == "is_empty":
            return [(st, BoolV(eq0(ln, st.facts)))]
        if cap is None:
            return None
        if nm == "capacity":
            return [(st, IntV(ctx.ex.pbits, False, p=cap))]
        return [(st, BoolV(ge0(ln - cap, st.facts)))]

    def s_hv_new(self, ctx, st):
        """heapless::vec::Vec::new"""
        ty = ctx.ex.normalize(ctx.dest_ty) if ctx.dest_ty is not None else None
        return [(st, self.hv_mk(ctx, ZERO, ty, Term("seq_empty", [], self.seq_ty(ty))))]

    def s_hv_clear(self, ctx, st):
        """heapless::vec::Vec::clear"""
        p = ctx.args[0]
        ln, ty = self.hv_get(ctx, st, p)
        self.hv_set(ctx, st, p, ZERO, ty, Term("seq_empty", [], self.seq_ty(ty)))
        return [(st, UNITV)]

    def s_hv_push(self, ctx, st):
        """heapless::vec::Vec::push"""
        p, x = ctx.args
        ln, ty = self.hv_get(ctx, st, p)
        cap = self.hv_cap(ctx, ty)
        if cap is None:
            return None
        old = self.hv_content(ctx, st, p)
        room = ge0(cap - ln - 1, st.facts)
        self.hv_set(ctx, st, p, ln + room, ty, mk_ite(room, Term("seq_push", [old, x], self.seq_ty(ty)), old))
        ok = Agg("adt", RESULT, 0, [UNITV])
        err = Agg("adt", RESULT, 1, [x])
        return [(st, mk_ite(room, ok, err))]

    def s_hv_extend(self, ctx, st):
        """heapless::vec::Vec::extend_from_slice"""
        p, sl = ctx.args
        ln, ty = self.hv_get(ctx, st, p)
        cap = self.hv_cap(ctx, ty)
        k = self.ptr_len(ctx, st, sl)
        if cap is None or k is None:
            return None
        old = self.hv_content(ctx, st, p)
        try:
            other = ctx.ex.read(st, sl.root, sl.path, sl.pty)
        except Exception:
            other = None
        if not isinstance(other, (Term, SymV, ITE)) or isinstance(other, SymV) and other.ty.get("k") != "slice":
            other = SymV(self.seq_ty(ty), ctx.ex.fresh("content"))
        room = ge0(cap - ln - k, st.facts)
        self.hv_set(ctx, st, p, ln + room * k, ty, mk_ite(room, Term("seq_concat", [old, other], self.seq_ty(ty)), old))
        ok = Agg("adt", RESULT, 0, [UNITV])
        err = Agg("adt", RESULT, 1, [UNITV])
        return [(st, mk_ite(room, ok, err))]

    def s_hv_deref(self, ctx, st):
        """<heapless::vec::Vec as core::ops::deref::Deref>::deref | <heapless::vec::Vec as core::ops::deref::DerefMut>::deref_mut | heapless::vec::Vec::as_slice | core::ops::deref::Deref::deref | core::ops::deref::DerefMut::deref_mut"""
        sty = ctx.gargs[0] if ctx.gargs else {}
        if ctx.key.startswith("core::ops::deref") and not (sty.get("k") == "adt" and sty.get("def") == self.HV):
            return None
        p = ctx.args[0]
        ln, ty = self.hv_get(ctx, st, p)
        ety = ty["args"][0] if ty else None
        # make sure the content lives at field 1 of the stored value, so that the slice pointer reads it
        cur = ctx.ex.read(st, p.root, p.path, p.pty)
        if not (isinstance(cur, Agg) and cur.name == self.HV and len(cur.fields) > 1):
            self.hv_set(ctx, st, p, ln, ty, self.hv_content_of(ctx, cur))
        mut = ctx.callee["name"] == "deref_mut"
        if mut:
            # handing out &mut [T]: the content may be rewritten behind our back
            self.hv_set(ctx, st, p, ln, ty, SymV(self.seq_ty(ty), ctx.ex.fresh("content")))
        return [(st, Ptr(p.root, p.path + (("f", 1, None),), IntV(ctx.ex.pbits, False, p=ln), {"k": "slice", "ty": ety}, False))]

    def s_hv_clone(self, ctx, st):
        """<heapless::vec::Vec as core::clone::Clone>::clone"""
        p = ctx.args[0]
        ln, ty = self.hv_get(ctx, st, p)
        return [(st, self.hv_mk(ctx, ln, ty, self.hv_content(ctx, st, p)))]

    def default_of(self, ctx, t):
        ib = ctx.ex.ibits(t)
        if ib and t.get("k") == "int":
            return IntV(ib[0], ib[1], p=ZERO)
        if t.get("k") == "bool":
            return BoolV(ZERO)
        if t.get("k") == "adt" and t.get("def") == self.HV:
            return self.hv_mk(ctx, ZERO, t, Term("seq_empty", [], self.seq_ty(t)))
        if t.get("k") == "adt" and t.get("def") == OPTION:
            return Agg("adt", OPTION, 0, [], t)
        return None

    def s_mem_take(self, ctx, st):
        """core::mem::take | core::mem::replace"""
        p = ctx.args[0]
        if not isinstance(p, Ptr):
            return None
        ex = ctx.ex
        old = ex.read(st, p.root, p.path, p.pty)
        if ctx.callee["name"] == "replace":
            new = ctx.args[1]
        else:
            t = ex.normalize(ctx.dest_ty) if ctx.dest_ty is not None else getattr(old, "ty", None)
            new = self.default_of(ctx, t) if t is not None else None
            if new is None:
                return None
        ex.write(st, p.root, p.path, new, p.pty)
        return [(st, old)]

    def s_mem_swap(self, ctx, st):
        """core::mem::swap"""
        p, q = ctx.args
        if not (isinstance(p, Ptr) and isinstance(q, Ptr)):
            return None
        ex = ctx.ex
        a, b = ex.read(st, p.root, p.path, p.pty), ex.read(st, q.root, q.path, q.pty)
        ex.write(st, p.root, p.path, b, p.pty)
        ex.write(st, q.root, q.path, a, q.pty)
        return [(st, UNITV)]

    def s_default(self, ctx, st):
        """core::default::Default::default"""
        if ctx.r["kind"] == "body":
            return None
        t = ctx.gargs[0]
        d = self.default_of(ctx, ctx.ex.normalize(t))
        if d is not None:
            return [(st, d)]
        ib = ctx.ex.ibits(t)
        if ib and t.get("k") == "int":
            return [(st, IntV(ib[0], ib[1], p=ZERO))]
        if t.get("k") == "bool":
            return [(st, BoolV(ZERO))]
        return None


def ex_undecided(msg):
    from exec import Undecided
    return Undecided(msg)
