"""Path facts (path condition with linear entailment) and the interpreter state."""
import itertools
from poly import (Poly, ZERO, ONE, atom_range, is_bool_atom, atom_pred_poly)


class Facts:
    """what is known on the current path: decided boolean atoms, linear facts, atom ranges."""

    def __init__(self):
        self.known = {}   # boolean atom -> 0/1
        self.lin = []     # Polys known >= 0
        self.rng = {}     # atom -> (lo, hi) refinements
        self.other = []   # (poly, value) constraints not reducible to the above
        self.log = []     # ordered list of (poly, value) decisions (for merges / reports)
        self.cond = []    # conditional facts: (guard 0/1 poly, poly >= 0) - active once guard is known 1

    def copy(self):
        f = Facts()
        f.known = dict(self.known)
        f.lin = list(self.lin)
        f.rng = dict(self.rng)
        f.other = list(self.other)
        f.log = list(self.log)
        f.cond = list(self.cond)
        return f

    # ------------------------------------------------------------ ranges
    def atom_range(self, a):
        if a in self.known:
            v = self.known[a]
            return (v, v)
        r = self.rng.get(a)
        base = atom_range(a)
        if r is None:
            return base
        lo = r[0] if base[0] is None else (base[0] if r[0] is None else max(base[0], r[0]))
        hi = r[1] if base[1] is None else (base[1] if r[1] is None else min(base[1], r[1]))
        return (lo, hi)

    def simplify(self, p, depth=0):
        if not self.known:
            return p
        p = p.subst(self.known)
        if depth < 2:
            # comparison atoms whose own polynomial mentions decided atoms are re-evaluated
            sub = {}
            for a in p.atoms():
                if a[0] in ("ge", "eq"):
                    inner = atom_pred_poly(a)
                    if any(x in self.known for x in inner.atoms()):
                        from poly import ge0, eq0
                        ni = self.simplify(inner, depth + 1)
                        sub[a] = ge0(ni, self) if a[0] == "ge" else eq0(ni, self)
            if sub:
                p = p.subst(sub)
                p = p.subst(self.known)
        return p

    # ------------------------------------------------------------ assume
    def assume(self, p, val=1):
        """record that 0/1 poly p has value val. Returns False on contradiction."""
        self.log.append(("assume", p, val))
        return self._assume(p, val)

    def _assume(self, p, val):
        p = self.simplify(p)
        c = p.const_value()
        if c is not None:
            return c == val
        a = p.is_atom()
        if a is not None and is_bool_atom(a):
            return self._set_atom(a, val)
        # 1 - atom
        q = ONE - p
        a = q.is_atom()
        if a is not None and is_bool_atom(a):
            return self._set_atom(a, 1 - val)
        # a single product of boolean atoms == 1  => all atoms 1
        if val == 1 and len(p.terms) == 1:
            (m, c), = p.terms.items()
            if c == 1 and all(is_bool_atom(x) for x in m):
                return all(self._set_atom(x, 1) for x in m)
        # sum of disjoint 0/1 terms == 0 => every term 0 (only safe if all coeffs positive)
        if val == 0 and all(c > 0 for c in p.terms.values()) and () not in p.terms:
            ok = True
            for m, c in p.terms.items():
                if len(m) == 1 and is_bool_atom(m[0]):
                    ok = ok and self._set_atom(m[0], 0)
                else:
                    self.other.append((Poly({m: 1}), 0))
            return ok
        # 1 - (sum of positive terms) == 1  => each term 0
        if val == 1 and p.terms.get((), 0) == 1 and all(c < 0 for m, c in p.terms.items() if m != ()):
            return self._assume(ONE - p, 0)
        for (q, v2) in self.other:
            if (q == p and v2 != val) or (q == ONE - p and v2 == val):
                return False
        # a small boolean combination: atoms that have one value in every satisfying assignment are decided
        ats = sorted(p.atoms(), key=repr)
        if 2 <= len(ats) <= 6 and all(is_bool_atom(x) for x in ats):
            sat = []
            for combo in itertools.product((0, 1), repeat=len(ats)):
                asg = dict(zip(ats, combo))
                # variants of one enum symbol exclude each other
                seen = {}
                bad = False
                for a_, v_ in asg.items():
                    if a_[0] == "var" and v_:
                        if a_[1] in seen:
                            bad = True
                        seen[a_[1]] = 1
                if bad:
                    continue
                if p.subst(asg).const_value() == val:
                    sat.append(combo)
            if not sat:
                return False
            forced = [(ats[i], sat[0][i]) for i in range(len(ats)) if all(c[i] == sat[0][i] for c in sat)]
            if forced:
                if len(sat) > 1:
                    self.other.append((p, val))
                for a_, v_ in forced:
                    if not self._set_atom(a_, v_):
                        return False
                return True
        self.other.append((p, val))
        return True

    def _set_atom(self, a, v):
        if a in self.known:
            return self.known[a] == v
        # enum variants: deciding one variant true decides the others false
        self.known[a] = v
        if self.lin and not self._propagate({a}):
            return False
        if a[0] == "var" and v == 1:
            for k in range(1, a[3]):
                if k != a[2]:
                    b = ("var", a[1], k, a[3])
                    if self.known.get(b, 0) == 1:
                        return False
                    self.known[b] = 0
        if a[0] == "ge":
            q = atom_pred_poly(a)
            if not self._add_lin(q if v else (-q - 1)):
                return False
        elif a[0] == "eq":
            q = atom_pred_poly(a)
            if v:
                if not (self._add_lin(q) and self._add_lin(-q)):
                    return False
            else:
                # q != 0 with q of one sign: q >= 1 (or q <= -1), e.g. `if n != 0 { n - 1 }` on an unsigned n
                qs = self.simplify(q)
                lo, hi = qs.range(self)
                if (lo is not None and lo >= 0) or self.sign_known(qs):
                    if not self._add_lin(qs - 1):
                        return False
                elif (hi is not None and hi <= 0) or self.sign_known(-qs):
                    if not self._add_lin(-qs - 1):
                        return False
        # conditional facts whose guard became true
        if self.cond:
            keep = []
            fire = []
            for g, q in self.cond:
                gv = self.simplify(g).const_value()
                if gv == 1:
                    fire.append(q)
                elif gv is None:
                    keep.append((g, q))
            self.cond = keep
            for q in fire:
                if not self._add_lin(q):
                    return False
        # re-simplify pending constraints
        pend, self.other = self.other, []
        for (p, val) in pend:
            if not self._assume(p, val):
                return False
        return True

    def _add_lin(self, q):
        q = self.simplify(q)
        lo, hi = q.range(self)
        if hi is not None and hi < 0:
            return False
        if lo is not None and lo >= 0:
            return True
        self.lin.append(q)
        # single-atom bound refinement:  c*x + d >= 0
        if len(q.terms) <= 2 and q.is_linear():
            items = [(m, c) for m, c in q.terms.items() if m != ()]
            if len(items) == 1:
                (m, c) = items[0]
                d = q.terms.get((), 0)
                x = m[0]
                lo0, hi0 = self.atom_range(x)
                if c > 0:
                    # x >= ceil(-d/c)
                    b = -((d) // c)
                    lo0 = b if lo0 is None else max(lo0, b)
                else:
                    # x <= floor(d/(-c))
                    b = d // (-c)
                    hi0 = b if hi0 is None else min(hi0, b)
                self.rng[x] = (lo0, hi0)
                if lo0 is not None and hi0 is not None and lo0 > hi0:
                    return False
        if not self._propagate(q.atoms()):
            return False
        return True

    def add_conditional(self, guard, q):
        self.log.append(("cond", guard, q))
        return self._add_conditional(guard, q)

    def _add_conditional(self, guard, q):
        gv = self.simplify(guard).const_value()
        if gv == 1:
            return self._add_lin(q)
        if gv is None:
            self.cond.append((guard, q))
        return True

    def add_fact_ge0(self, q):
        self.log.append(("lin", q, None))
        return self._add_lin(q)

    def decisions(self, start=0):
        """[(poly, value)] of the branch decisions in the log from index start"""
        return [(e[1], e[2]) for e in self.log[start:] if e[0] == "assume"]

    @staticmethod
    def replay(entries):
        f = Facts()
        for e in entries:
            if e[0] == "assume":
                f.assume(e[1], e[2])
            elif e[0] == "lin":
                f.add_fact_ge0(e[1])
            else:
                f.add_conditional(e[1], e[2])
        return f

    def _propagate(self, seed=None):
        """interval propagation over the linear facts: tighten single-atom bounds (few rounds).
        seed: only facts mentioning these atoms (or atoms whose bound moved) are revisited."""
        active = set(seed) if seed is not None else None
        for _ in range(3):
            changed = False
            moved = set()
            for f in self.lin:
                if not f.is_linear():
                    continue
                if active is not None and not (f.atoms() & active):
                    continue
                items = [(m[0], c) for m, c in f.terms.items() if m != ()]
                if len(items) < 2 or len(items) > 6:
                    continue
                d = f.terms.get((), 0)
                rngs = {x: self.atom_range(x) for x, _ in items}
                for x, c in items:
                    # c*x >= -(d + sum_{others} c_i x_i)  ; bound the others from above
                    tot = d
                    ok = True
                    for y, cy in items:
                        if y is x:
                            continue
                        lo, hi = rngs[y]
                        b = hi if cy > 0 else lo
                        if b is None:
                            ok = False
                            break
                        tot += cy * b
                    if not ok:
                        continue
                    lo0, hi0 = rngs[x]
                    if c > 0:
                        nb = -(tot // c)          # x >= ceil(-tot/c)
                        if lo0 is None or nb > lo0:
                            self.rng[x] = (nb, hi0)
                            rngs[x] = (nb, hi0)
                            changed = True
                            moved.add(x)
                    else:
                        nb = tot // (-c)          # x <= floor(tot/(-c))
                        if hi0 is None or nb < hi0:
                            self.rng[x] = (lo0, nb)
                            rngs[x] = (lo0, nb)
                            changed = True
                            moved.add(x)
                    lo1, hi1 = rngs[x]
                    if lo1 is not None and hi1 is not None and lo1 > hi1:
                        return False
            if not changed:
                break
            if active is not None:
                active = moved
        return True

    # ------------------------------------------------------------ entailment
    def has_fact(self, guard, q):
        """syntactic hit: q >= 0 is literally among the path facts (or the conditional facts, under guard)"""
        ck = (len(self.lin), len(self.cond), len(self.known))
        c = getattr(self, "_idx", None)
        if c is None or c[0] != ck:
            c = (ck, {f.key() for f in self.lin}, {(g.key(), f.key()) for g, f in self.cond})
            self._idx = c
        k = q.key()
        if k in c[1]:
            return True
        return guard is not None and (guard.key(), k) in c[2]

    def eq_elimination(self):
        """Gaussian elimination over the equalities among the path facts (q >= 0 and -q >= 0 both
        present, q linear with a unit-coefficient atom): -> (ordered [(atom, Poly)], remaining facts
        rewritten). Every path fact and the goal are rewritten by the same substitution, so the
        entailment question is unchanged; it only lets a constant-multiplier combination finish
        proofs that need an equality multiplied by a polynomial."""
        ck = (len(self.lin), len(self.known))
        c = getattr(self, "_eqc", None)
        if c is not None and c[0] == ck:
            return c[1], c[2]
        keys = {}
        for f in self.lin:
            keys.setdefault(f.key(), f)
        subs = []
        used = set()
        for k, f in list(keys.items()):
            if k in used or not f.is_linear():
                continue
            nk = (-f).key()
            if nk not in keys:
                continue
            used.add(k)
            used.add(nk)
            e = f
            for (a, ex) in subs:
                e = e.subst({a: ex})
            if e.const_value() is not None or not e.is_linear():
                continue
            cands = sorted([(m[0], c) for m, c in e.terms.items() if m != () and abs(c) == 1 and not is_bool_atom(m[0])], key=lambda mc: repr(mc[0]))
            if not cands:
                continue
            x, cx = cands[-1]
            # cx*x + rest == 0  ->  x = -rest/cx
            rest = e - Poly({(x,): cx})
            ex = -rest if cx == 1 else rest
            subs = [(a, v.subst({x: ex})) for a, v in subs]
            subs.append((x, ex))
        rest_lin = []
        seen = set()
        m = dict(subs)
        for k, f in keys.items():
            if k in used:
                continue
            g = f.subst(m)
            if g.const_value() is not None:
                continue
            gk = g.key()
            if gk not in seen:
                seen.add(gk)
                rest_lin.append(g)
        self._eqc = (ck, m, rest_lin)
        return m, rest_lin

    def entails_ge0(self, p, max_facts=3, max_coeff=3, use_eq=False, quick_refute=False):
        """is p >= 0 implied?  interval arithmetic, then a bounded Farkas combination of the
        linear path facts (at most max_facts facts, multipliers 1..max_coeff)."""
        p = self.simplify(p)
        lo, hi = p.range(self)
        if lo is not None and lo >= 0:
            return ("range",)
        if hi is not None and hi < 0:
            return None
        if use_eq:
            m, lin = self.eq_elimination()
            if m:
                p = p.subst(m)
                lo, _ = p.range(self)
                if lo is not None and lo >= 0:
                    return ("range-eq",)
            else:
                lin = None
        else:
            lin = None
        patoms = p.atoms()
        if lin is None:
            seen = set()
            lin = []
            for f in self.lin:
                k = f.key()
                if k not in seen:
                    seen.add(k)
                    lin.append(f)
        direct = [f for f in lin if f.atoms() & patoms]
        more = set()
        for f in direct:
            more |= f.atoms()
        indirect = [f for f in lin if not (f.atoms() & patoms) and (f.atoms() & more)]
        direct.sort(key=lambda f: (-len(f.atoms() & patoms), len(f.terms)))
        pool = direct + indirect
        if self.known:
            # facts recorded before an atom they mention was decided (if-then-else shaped facts) are specialised
            kn = self.known
            pool = [self.simplify(f) if any(a in kn for a in f.atoms()) else f for f in pool]
            pool = [f for f in pool if f.const_value() is None]
        if quick_refute:
            # (Houdini candidates only: giving up early merely loses a candidate.) A monomial that pulls the goal far
            # below zero must be cancelled by a fact carrying it with the same sign; if no fact does, stop searching.
            for m_, c_ in p.terms.items():
                if m_ == ():
                    continue
                lo_m, _hi = Poly({m_: c_}).range(self)
                if lo_m is None or lo_m <= -2:
                    if not any(f.terms.get(m_, 0) * c_ > 0 for f in pool):
                        return None
        limits = {1: 40, 2: 14, 3: 9}
        for k in range(1, max_facts + 1):
            cands = pool[:limits.get(k, 8)]
            mc = max_coeff if k < 3 else 1
            for combo in itertools.combinations(range(len(cands)), k):
                for lam in itertools.product(range(1, mc + 1), repeat=k):
                    r = p
                    for i, l in zip(combo, lam):
                        r = r - l * cands[i]
                    lo, _ = r.range(self)
                    if lo is not None and lo >= 0:
                        return ("farkas", [(l, repr(cands[i])) for i, l in zip(combo, lam)])
        return None

    def sign_known(self, q, depth=0, use_eq=False):
        """q >= 0 by a cheap argument: entailed linearly, or q = x * r + rest with x a non-negative atom, r entailed
        non-negative and rest non-negative by the same argument (e.g. width * (clipped.y - full.y) + (clipped.x - full.x))"""
        if q.const_value() is not None:
            return q.const_value() >= 0
        if self.entails_ge0(q, 2, 1) is not None:
            return True
        if use_eq and self.entails_ge0(q, 3, 1, use_eq=True) is not None:
            return True
        if depth > 2:
            return False
        cands = set()
        for m in q.terms:
            if len(m) >= 2:
                cands |= set(m)
        for x in sorted(cands, key=repr):
            lo, _ = self.atom_range(x)
            if lo is None or lo < 0:
                continue
            with_x = {m: c for m, c in q.terms.items() if x in m}
            if any(m.count(x) != 1 for m in with_x):
                continue
            r = Poly({tuple(a for a in m if a is not x and a != x): c for m, c in with_x.items()})
            rest = Poly({m: c for m, c in q.terms.items() if x not in m})
            if (self.entails_ge0(r, 2, 1) is not None or
                    (use_eq and self.entails_ge0(r, 3, 1, use_eq=True) is not None)) and \
                    self.sign_known(rest, depth + 1, use_eq):
                return True
        return False

    def entails_ge0_prod(self, p, depth=0):
        """p >= 0 through one product step: p, or p minus one path fact, is a sum of products of non-negative
        factors (sign_known) - e.g. len - N*count from len - N*div(len,N) >= 0 and count <= div(len,N). Path
        equalities are eliminated first; comparison atoms inside p or the related facts (min / if-then-else values)
        are decided by a case split (at most two)."""
        p = self.simplify(p)
        m, lin = self.eq_elimination()
        if m:
            p = p.subst(m)
        else:
            lin = self.lin
        if self.sign_known(p, use_eq=True):
            return True
        pat = p.atoms()
        seen = set()
        rel = []
        for f in lin:
            if (f.atoms() & pat) and f.key() not in seen:
                seen.add(f.key())
                rel.append(self.simplify(f))
        if p.is_linear() and all(f.is_linear() for f in rel):
            return False        # nothing a product step could add to the linear (Farkas) entailment
        if len(p.terms) > 10 or len(pat) > 8:
            return False        # (bit-sliced / if-then-else heavy goals: not the shape this step is for)
        rel = [f for f in rel if len(f.terms) <= 10]
        for f in rel[:24]:
            if self.sign_known(p - f, use_eq=True):
                return True
        small = [f for f in rel if not f.is_linear()][:6] + [f for f in rel if f.is_linear()][:6]
        for i_ in range(len(small)):
            for j_ in range(i_ + 1, len(small)):
                if self.sign_known(p - small[i_] - small[j_], use_eq=True):
                    return True
        if depth >= 1:
            return False
        cand = set(a for a in pat if is_bool_atom(a) and a[0] in ("ge", "eq"))
        for f in rel:
            cand |= set(a for a in f.atoms() if is_bool_atom(a) and a[0] in ("ge", "eq") and a not in self.known)
        ats = sorted(cand, key=repr)
        if not ats or len(ats) > 2:
            return False
        for combo in itertools.product((0, 1), repeat=len(ats)):
            f2 = self.copy()
            if not all(f2.assume(Poly.atom(a), v) for a, v in zip(ats, combo)):
                continue
            if not f2.entails_ge0_prod(p, depth + 1):
                return False
        return True

    def entails_ge0_split(self, p, max_facts=2, max_coeff=2, use_eq=False):
        """entails_ge0 with a case split over (at most two) comparison atoms that occur inside p - the shape of
        min / max / if-then-else values: p >= 0 holds if it holds in every feasible case with that case assumed"""
        r = self.entails_ge0(p, max_facts, max_coeff, use_eq=use_eq)
        if r is not None:
            return r
        p = self.simplify(p)
        cand = set(a for a in p.atoms() if is_bool_atom(a) and a[0] in ("ge", "eq"))
        pat = p.atoms()
        for f in self.lin:
            if f.atoms() & pat:
                cand |= set(a for a in f.atoms() if is_bool_atom(a) and a[0] in ("ge", "eq") and a not in self.known)
        ats = sorted(cand, key=repr)
        if not ats or len(ats) > 2:
            return None
        for combo in itertools.product((0, 1), repeat=len(ats)):
            f2 = self.copy()
            if not all(f2.assume(Poly.atom(a), v) for a, v in zip(ats, combo)):
                continue
            if f2.entails_ge0(p, max_facts, max_coeff, use_eq=use_eq) is None:
                return None
        return ("split", [repr(a) for a in ats])

    def implied_false(self, p):
        """is the 0/1 poly p necessarily 0 on this path? (used to prune infeasible forks)"""
        p = self.simplify(p)
        c = p.const_value()
        if c is not None:
            return c == 0
        a = p.is_atom()
        neg = False
        if a is None:
            a = (ONE - p).is_atom()
            neg = True
        if a is not None and a[0] == "ge":
            q = atom_pred_poly(a)
            if not neg:
                return self.entails_ge0(-q - 1, 3, 2) is not None
            return self.entails_ge0(q, 3, 2) is not None
        if a is not None and a[0] == "eq" and not neg:
            q = atom_pred_poly(a)
            return self.entails_ge0(q - 1, 2, 2) is not None or self.entails_ge0(-q - 1, 2, 2) is not None
        if a is not None and a[0] == "eq" and neg:
            # "q != 0" is impossible when q == 0 is entailed
            q = atom_pred_poly(a)
            # (cheap version: this sits on the path of every equality branch)
            qs = self.simplify(q)
            if not any(f.atoms() & qs.atoms() for f in self.lin[-40:]):
                return False
            return self.entails_ge0(qs, 1, 1) is not None and self.entails_ge0(-qs, 1, 1) is not None
        if a is not None:
            return False
        # small boolean combination (e.g. the disjunction of two overflow conditions): p is
        # necessarily 0 if it vanishes under every assignment of its atoms that is still possible
        ats = sorted(p.atoms(), key=repr)
        if 2 <= len(ats) <= 4 and all(is_bool_atom(x) for x in ats):
            poss = []
            for x in ats:
                vals = []
                if not self.implied_false(Poly.atom(x)):
                    vals.append(1)
                if not self.implied_false(ONE - Poly.atom(x)):
                    vals.append(0)
                if not vals:
                    return True
                poss.append(vals)
            for combo in itertools.product(*poss):
                if p.subst(dict(zip(ats, combo))).const_value() != 0:
                    return False
            return True
        return False


class State:
    def __init__(self):
        self.mem = {}      # root -> value
        self.facts = Facts()
        self.trace = []    # list of trace items
        self.dead = False
        self.lineage = ()  # states are merged at joins only within one lineage

    def fork(self):
        s = State()
        s.mem = dict(self.mem)
        s.facts = self.facts.copy()
        s.trace = list(self.trace)
        s.lineage = self.lineage
        return s
