//! Compile-level witnesses (engine E6): each `compile_fail` doc-test must be rejected by the compiler
//! with the stated error code; its twin differs only in the offending line and must compile, so a
//! witness cannot pass because of an unrelated error (wrong path, missing import).

/// W1 (C17): a `Display` cannot be built outside the crate except through `Builder::init`
/// (all fields are private), so no display exists that skipped the reset.
///
/// ```compile_fail
/// use mipidsi::{_mock::*, models::ILI9341Rgb565, Display, NoResetPin};
/// let d: Display<MockDisplayInterface, ILI9341Rgb565, NoResetPin> = Display {
///     di: MockDisplayInterface,
/// };
/// ```
///
/// and the tracked state cannot be forged from outside (C13, C10):
/// ```compile_fail,E0616
/// use mipidsi::{_mock::*, models::ILI9341Rgb565, Builder};
/// let mut d = Builder::new(ILI9341Rgb565, MockDisplayInterface).init(&mut MockDelay).unwrap();
/// d.sleeping = true;
/// ```
///
/// twin:
/// ```
/// use mipidsi::{_mock::*, models::ILI9341Rgb565, Builder, Display, NoResetPin};
/// let d: Display<MockDisplayInterface, ILI9341Rgb565, NoResetPin> =
///     Builder::new(ILI9341Rgb565, MockDisplayInterface).init(&mut MockDelay).unwrap();
/// ```
pub struct W1;

/// W2 (C05): an 18-bit colour model cannot be put on a 16-bit parallel bus: there is no
/// `InterfacePixelFormat<u16>` for `Rgb666`.
///
/// ```compile_fail,E0277
/// use mipidsi::{_mock::*, interface::{Generic16BitBus, ParallelInterface}, models::ILI9341Rgb666, Builder};
/// let p = || MockOutputPin;
/// let bus = Generic16BitBus::new((p(), p(), p(), p(), p(), p(), p(), p(), p(), p(), p(), p(), p(), p(), p(), p()));
/// let di = ParallelInterface::new(bus, p(), p());
/// let _ = Builder::new(ILI9341Rgb666, di).init(&mut MockDelay);
/// ```
///
/// twin (16-bit colour on the same bus):
/// ```
/// use mipidsi::{_mock::*, interface::{Generic16BitBus, ParallelInterface}, models::ILI9341Rgb565, Builder};
/// let p = || MockOutputPin;
/// let bus = Generic16BitBus::new((p(), p(), p(), p(), p(), p(), p(), p(), p(), p(), p(), p(), p(), p(), p(), p()));
/// let di = ParallelInterface::new(bus, p(), p());
/// let _ = Builder::new(ILI9341Rgb565, di).init(&mut MockDelay);
/// ```
pub struct W2;

/// W3 (C14): address-mode bytes arise only from `new` / `default` / `with_*`: the byte is a private field.
///
/// ```compile_fail,E0423
/// use mipidsi::dcs::SetAddressMode;
/// let m = SetAddressMode(0b0000_0011);
/// ```
///
/// twin:
/// ```
/// use mipidsi::dcs::SetAddressMode;
/// let m = SetAddressMode::default();
/// ```
pub struct W3;
