// mirfacts: a rustc_private driver that dumps the type-checked program (MIR bodies,
// ADT/impl/trait tables, constants) of one crate as a JSON fact file.
//
// Used as RUSTC_WORKSPACE_WRAPPER: argv[1] is the real rustc path and is dropped.
// Env: MIRFACTS_OUT  = path of the fact file (required to emit anything)
//      MIRFACTS_CRATE = crate name to dump (default "mipidsi")
#![feature(rustc_private)]

extern crate rustc_abi;
extern crate rustc_driver;
extern crate rustc_hir;
extern crate rustc_interface;
extern crate rustc_middle;
extern crate rustc_span;

use rustc_driver::Compilation;
use rustc_hir::def::DefKind;
use rustc_hir::def_id::{DefId, LOCAL_CRATE};
use rustc_middle::mir::interpret::Scalar;
use rustc_middle::mir::{self, *};
use rustc_middle::ty::{self, GenericArgKind, GenericArgsRef, Ty, TyCtxt, TypingEnv};
use std::collections::{BTreeMap, HashSet};
use std::fmt::Write as _;

// ---------------------------------------------------------------- JSON
#[derive(Clone)]
enum J {
    Null,
    Bool(bool),
    Num(String),
    Str(String),
    Arr(Vec<J>),
    Obj(Vec<(String, J)>),
}

fn jstr(s: impl Into<String>) -> J {
    J::Str(s.into())
}
fn jnum<T: std::fmt::Display>(n: T) -> J {
    J::Num(n.to_string())
}
macro_rules! obj {
    ($($k:expr => $v:expr),* $(,)?) => { J::Obj(vec![$(($k.to_string(), $v)),*]) };
}

impl J {
    fn write(&self, out: &mut String) {
        match self {
            J::Null => out.push_str("null"),
            J::Bool(b) => out.push_str(if *b { "true" } else { "false" }),
            J::Num(n) => out.push_str(n),
            J::Str(s) => {
                out.push('"');
                for c in s.chars() {
                    match c {
                        '"' => out.push_str("\\\""),
                        '\\' => out.push_str("\\\\"),
                        '\n' => out.push_str("\\n"),
                        '\r' => out.push_str("\\r"),
                        '\t' => out.push_str("\\t"),
                        c if (c as u32) < 0x20 => {
                            let _ = write!(out, "\\u{:04x}", c as u32);
                        }
                        c => out.push(c),
                    }
                }
                out.push('"');
            }
            J::Arr(v) => {
                out.push('[');
                for (i, x) in v.iter().enumerate() {
                    if i > 0 {
                        out.push(',');
                    }
                    x.write(out);
                }
                out.push(']');
            }
            J::Obj(v) => {
                out.push('{');
                for (i, (k, x)) in v.iter().enumerate() {
                    if i > 0 {
                        out.push(',');
                    }
                    J::Str(k.clone()).write(out);
                    out.push(':');
                    x.write(out);
                }
                out.push('}');
            }
        }
    }
}

// insertion-ordered set of DefIds (DefId is not Ord)
#[derive(Default)]
struct OrdSet {
    seen: HashSet<DefId>,
    order: Vec<DefId>,
}
impl OrdSet {
    fn insert(&mut self, d: DefId) {
        if self.seen.insert(d) {
            self.order.push(d);
        }
    }
}

// ---------------------------------------------------------------- context
struct Cx<'tcx> {
    tcx: TyCtxt<'tcx>,
    adts: OrdSet,
    traits: OrdSet,
}

impl<'tcx> Cx<'tcx> {
    fn path(&self, did: DefId) -> String {
        let tcx = self.tcx;
        let krate = tcx.crate_name(did.krate).to_string();
        let mut s = krate;
        s.push_str(&tcx.def_path(did).to_string_no_crate_verbose());
        s
    }

    fn span(&self, sp: rustc_span::Span) -> J {
        let sm = self.tcx.sess.source_map();
        let lo = sm.lookup_char_pos(sp.lo());
        let file = match &lo.file.name {
            rustc_span::FileName::Real(r) => match r.local_path() {
                Some(p) => p.display().to_string(),
                None => format!("{:?}", lo.file.name),
            },
            other => format!("{:?}", other),
        };
        obj! {"file" => jstr(file), "line" => jnum(lo.line), "col" => jnum(lo.col.0 + 1), "exp" => J::Bool(sp.from_expansion())}
    }

    fn ty(&mut self, t: Ty<'tcx>) -> J {
        let tcx = self.tcx;
        let s = format!("{}", t);
        let mut o: Vec<(String, J)> = Vec::new();
        macro_rules! put { ($k:expr, $v:expr) => { o.push(($k.to_string(), $v)) } }
        match t.kind() {
            ty::Bool => put!("k", jstr("bool")),
            ty::Char => put!("k", jstr("char")),
            ty::Int(i) => {
                put!("k", jstr("int"));
                put!("signed", J::Bool(true));
                put!("bits", match i.bit_width() { Some(w) => jnum(w), None => jstr("ptr") });
            }
            ty::Uint(u) => {
                put!("k", jstr("int"));
                put!("signed", J::Bool(false));
                put!("bits", match u.bit_width() { Some(w) => jnum(w), None => jstr("ptr") });
            }
            ty::Float(_) => put!("k", jstr("float")),
            ty::Adt(def, args) => {
                self.adts.insert(def.did());
                put!("k", jstr("adt"));
                put!("def", jstr(self.path(def.did())));
                put!("args", self.gargs(args));
            }
            ty::Ref(_, inner, m) => {
                put!("k", jstr("ref"));
                put!("mut", J::Bool(m.is_mut()));
                put!("ty", self.ty(*inner));
            }
            ty::RawPtr(inner, m) => {
                put!("k", jstr("ptr"));
                put!("mut", J::Bool(m.is_mut()));
                put!("ty", self.ty(*inner));
            }
            ty::Tuple(tys) => {
                put!("k", jstr("tuple"));
                let v: Vec<J> = tys.iter().map(|t| self.ty(t)).collect();
                put!("tys", J::Arr(v));
            }
            ty::Array(inner, len) => {
                put!("k", jstr("array"));
                put!("ty", self.ty(*inner));
                put!("len", self.tyconst(*len));
            }
            ty::Slice(inner) => {
                put!("k", jstr("slice"));
                put!("ty", self.ty(*inner));
            }
            ty::Str => put!("k", jstr("str")),
            ty::Never => put!("k", jstr("never")),
            ty::Param(p) => {
                put!("k", jstr("param"));
                put!("name", jstr(p.name.to_string()));
                put!("idx", jnum(p.index));
            }
            ty::Alias(at) => {
                let did = at.kind.def_id();
                match tcx.def_kind(did) {
                    DefKind::AssocTy => {
                        put!("k", jstr("proj"));
                        put!("def", jstr(self.path(did)));
                        put!("name", jstr(tcx.item_name(did).to_string()));
                        let tr = tcx.parent(did);
                        if tcx.def_kind(tr) == DefKind::Trait {
                            self.traits.insert(tr);
                            put!("trait", jstr(self.path(tr)));
                        }
                        put!("args", self.gargs(at.args));
                    }
                    DefKind::OpaqueTy => {
                        put!("k", jstr("opaque"));
                        put!("def", jstr(self.path(did)));
                        put!("args", self.gargs(at.args));
                    }
                    _ => {
                        put!("k", jstr("alias_other"));
                        put!("def", jstr(self.path(did)));
                        put!("args", self.gargs(at.args));
                    }
                }
            }
            ty::FnDef(did, args) => {
                put!("k", jstr("fndef"));
                let c = self.callee(*did, args);
                put!("fn", c);
            }
            ty::Closure(did, args) => {
                put!("k", jstr("closure"));
                put!("def", jstr(self.path(*did)));
                let ca = args.as_closure();
                put!("parent_args", self.gargs(ca.parent_args()));
                let ups: Vec<J> = ca.upvar_tys().iter().map(|t| self.ty(t)).collect();
                put!("upvars", J::Arr(ups));
            }
            ty::FnPtr(..) => put!("k", jstr("fnptr")),
            ty::Dynamic(..) => put!("k", jstr("dyn")),
            _ => put!("k", jstr("other")),
        }
        put!("s", jstr(s));
        J::Obj(o)
    }

    fn tyconst(&mut self, c: ty::Const<'tcx>) -> J {
        match c.kind() {
            ty::ConstKind::Param(p) => {
                obj! {"k" => jstr("cparam"), "name" => jstr(p.name.to_string()), "idx" => jnum(p.index)}
            }
            ty::ConstKind::Value(v) => {
                if let Some(si) = v.try_to_leaf() {
                    obj! {"k" => jstr("const"), "val" => jnum(si.to_bits_unchecked()), "s" => jstr(format!("{}", c))}
                } else {
                    obj! {"k" => jstr("cother"), "s" => jstr(format!("{}", c))}
                }
            }
            ty::ConstKind::Unevaluated(uv) => {
                // anonymous / named constants without generic arguments can be evaluated right away
                if uv.args.is_empty() {
                    if let Ok(ConstValue::Scalar(Scalar::Int(si))) = self.tcx.const_eval_poly(uv.def) {
                        return obj! {"k" => jstr("const"), "val" => jnum(si.to_bits_unchecked()), "s" => jstr(format!("{}", c))};
                    }
                }
                obj! {"k" => jstr("cuneval"), "def" => jstr(self.path(uv.def)), "args" => self.gargs(uv.args), "s" => jstr(format!("{}", c))}
            }
            _ => obj! {"k" => jstr("cother"), "s" => jstr(format!("{}", c))},
        }
    }

    fn gargs(&mut self, args: &[ty::GenericArg<'tcx>]) -> J {
        let mut v = Vec::new();
        for a in args.iter() {
            v.push(match a.kind() {
                GenericArgKind::Lifetime(_) => obj! {"k" => jstr("lifetime")},
                GenericArgKind::Type(t) => self.ty(t),
                GenericArgKind::Const(c) => self.tyconst(c),
            });
        }
        J::Arr(v)
    }

    fn generics_of(&self, did: DefId) -> J {
        let tcx = self.tcx;
        let g = tcx.generics_of(did);
        let mut v = Vec::new();
        for i in 0..g.count() {
            let p = g.param_at(i, tcx);
            let kind = match p.kind {
                ty::GenericParamDefKind::Lifetime => "lifetime",
                ty::GenericParamDefKind::Type { .. } => "type",
                ty::GenericParamDefKind::Const { .. } => "const",
            };
            v.push(obj! {"name" => jstr(p.name.to_string()), "idx" => jnum(p.index), "kind" => jstr(kind)});
        }
        obj! {"parent_count" => jnum(g.parent_count), "params" => J::Arr(v)}
    }

    // description of where an item lives (impl / trait / module)
    fn container(&mut self, did: DefId) -> J {
        let tcx = self.tcx;
        let mut cur = did;
        // closures: walk up to the enclosing fn-like item
        while matches!(tcx.def_kind(cur), DefKind::Closure | DefKind::InlineConst | DefKind::AnonConst) {
            cur = tcx.parent(cur);
        }
        if cur.index == rustc_hir::def_id::CRATE_DEF_INDEX {
            return obj! {"kind" => jstr("crate")};
        }
        let parent = tcx.parent(cur);
        match tcx.def_kind(parent) {
            DefKind::Impl { of_trait } => {
                let self_ty = tcx.type_of(parent).instantiate_identity().skip_norm_wip();
                let mut o = vec![
                    ("kind".to_string(), jstr(if of_trait { "trait_impl" } else { "inherent_impl" })),
                    ("impl".to_string(), jstr(self.path(parent))),
                    ("self_ty".to_string(), self.ty(self_ty)),
                ];
                if of_trait {
                    let tr = tcx.impl_trait_ref(parent).instantiate_identity().skip_norm_wip();
                    self.traits.insert(tr.def_id);
                    o.push(("trait".to_string(), jstr(self.path(tr.def_id))));
                    o.push(("trait_args".to_string(), self.gargs(tr.args)));
                }
                J::Obj(o)
            }
            DefKind::Trait => {
                self.traits.insert(parent);
                obj! {"kind" => jstr("trait"), "trait" => jstr(self.path(parent))}
            }
            _ => obj! {"kind" => jstr("mod"), "path" => jstr(self.path(parent))},
        }
    }

    fn callee(&mut self, did: DefId, args: GenericArgsRef<'tcx>) -> J {
        let tcx = self.tcx;
        let kind = format!("{:?}", tcx.def_kind(did));
        let name = match tcx.opt_item_name(did) {
            Some(n) => n.to_string(),
            None => String::new(),
        };
        let mut o = vec![
            ("def".to_string(), jstr(self.path(did))),
            ("name".to_string(), jstr(name)),
            ("kind".to_string(), jstr(kind)),
            ("args".to_string(), self.gargs(args)),
            ("container".to_string(), self.container(did)),
            ("pretty".to_string(), jstr(tcx.def_path_str_with_args(did, args))),
        ];
        if let DefKind::Ctor(..) = tcx.def_kind(did) {
            // constructor of a tuple struct / tuple variant
            let parent = tcx.parent(did);
            let (adt_did, variant) = match tcx.def_kind(parent) {
                DefKind::Variant => (tcx.parent(parent), Some(parent)),
                _ => (parent, None),
            };
            self.adts.insert(adt_did);
            let adt = tcx.adt_def(adt_did);
            let vidx = match variant {
                Some(v) => adt.variant_index_with_id(v).as_usize(),
                None => 0,
            };
            o.push(("ctor".to_string(), obj! {"adt" => jstr(self.path(adt_did)), "variant" => jnum(vidx)}));
        }
        J::Obj(o)
    }

    fn place(&mut self, p: &Place<'tcx>) -> J {
        let mut proj = Vec::new();
        for e in p.projection.iter() {
            proj.push(match e {
                ProjectionElem::Deref => obj! {"k" => jstr("deref")},
                ProjectionElem::Field(f, t) => obj! {"k" => jstr("field"), "i" => jnum(f.as_usize()), "ty" => self.ty(t)},
                ProjectionElem::Index(l) => obj! {"k" => jstr("index"), "local" => jnum(l.as_usize())},
                ProjectionElem::ConstantIndex { offset, min_length, from_end } => {
                    obj! {"k" => jstr("constindex"), "offset" => jnum(offset), "min_length" => jnum(min_length), "from_end" => J::Bool(from_end)}
                }
                ProjectionElem::Subslice { from, to, from_end } => {
                    obj! {"k" => jstr("subslice"), "from" => jnum(from), "to" => jnum(to), "from_end" => J::Bool(from_end)}
                }
                ProjectionElem::Downcast(name, v) => {
                    obj! {"k" => jstr("downcast"), "variant" => jnum(v.as_usize()), "name" => match name { Some(n) => jstr(n.to_string()), None => J::Null }}
                }
                ProjectionElem::OpaqueCast(t) => obj! {"k" => jstr("opaquecast"), "ty" => self.ty(t)},
                ProjectionElem::UnwrapUnsafeBinder(t) => obj! {"k" => jstr("unwrapbinder"), "ty" => self.ty(t)},
            });
        }
        obj! {"local" => jnum(p.local.as_usize()), "proj" => J::Arr(proj)}
    }

    fn constant(&mut self, c: &ConstOperand<'tcx>, tenv: TypingEnv<'tcx>) -> J {
        let tcx = self.tcx;
        let ty = c.const_.ty();
        let mut o = vec![
            ("k".to_string(), jstr("const")),
            ("ty".to_string(), self.ty(ty)),
            ("s".to_string(), jstr(format!("{}", c.const_))),
        ];
        // evaluated scalar where possible
        let is_scalar_ty = matches!(ty.kind(), ty::Bool | ty::Char | ty::Int(_) | ty::Uint(_));
        match c.const_ {
            mir::Const::Val(v, _) => match v {
                ConstValue::Scalar(Scalar::Int(si)) => {
                    o.push(("val".to_string(), jnum(si.to_bits_unchecked())));
                    o.push(("size".to_string(), jnum(si.size().bytes())));
                }
                ConstValue::ZeroSized => o.push(("zst".to_string(), J::Bool(true))),
                ConstValue::Slice { alloc_id, meta } => {
                    // string / byte-string literals: dump the bytes
                    if let rustc_middle::mir::interpret::GlobalAlloc::Memory(a) = tcx.global_alloc(alloc_id) {
                        let a = a.inner();
                        let bytes = a.inspect_with_uninit_and_ptr_outside_interpreter(0..(meta as usize).min(a.len()));
                        o.push(("bytes".to_string(), J::Arr(bytes.iter().map(|b| jnum(*b)).collect())));
                    }
                }
                _ => o.push(("indirect".to_string(), J::Bool(true))),
            },
            mir::Const::Unevaluated(uv, _) => {
                let mut u = vec![
                    ("def".to_string(), jstr(self.path(uv.def))),
                    ("args".to_string(), self.gargs(uv.args)),
                    ("container".to_string(), self.container(uv.def)),
                    ("name".to_string(), match tcx.opt_item_name(uv.def) { Some(n) => jstr(n.to_string()), None => J::Null }),
                ];
                if let Some(p) = uv.promoted {
                    u.push(("promoted".to_string(), jnum(p.as_usize())));
                }
                o.push(("uneval".to_string(), J::Obj(u)));
                if is_scalar_ty {
                    if let Some(si) = c.const_.try_eval_scalar_int(tcx, tenv) {
                        o.push(("val".to_string(), jnum(si.to_bits_unchecked())));
                    }
                }
            }
            mir::Const::Ty(_, ct) => {
                o.push(("tyconst".to_string(), self.tyconst(ct)));
                if let ty::ConstKind::Value(v) = ct.kind() {
                    if let Some(si) = v.try_to_leaf() {
                        o.push(("val".to_string(), jnum(si.to_bits_unchecked())));
                    }
                }
            }
        }
        J::Obj(o)
    }

    fn operand(&mut self, op: &Operand<'tcx>, tenv: TypingEnv<'tcx>) -> J {
        match op {
            Operand::Copy(p) => obj! {"k" => jstr("copy"), "place" => self.place(p)},
            Operand::Move(p) => obj! {"k" => jstr("move"), "place" => self.place(p)},
            Operand::Constant(c) => self.constant(c, tenv),
            Operand::RuntimeChecks(rc) => obj! {"k" => jstr("runtime_checks"), "s" => jstr(format!("{:?}", rc))},
        }
    }

    fn rvalue(&mut self, rv: &Rvalue<'tcx>, tenv: TypingEnv<'tcx>) -> J {
        match rv {
            Rvalue::Use(op, _) => obj! {"k" => jstr("use"), "op" => self.operand(op, tenv)},
            Rvalue::Repeat(op, n) => obj! {"k" => jstr("repeat"), "op" => self.operand(op, tenv), "count" => self.tyconst(*n)},
            Rvalue::Ref(_, bk, p) => {
                let m = matches!(bk, BorrowKind::Mut { .. });
                obj! {"k" => jstr("ref"), "mut" => J::Bool(m), "bk" => jstr(format!("{:?}", bk)), "place" => self.place(p)}
            }
            Rvalue::ThreadLocalRef(_) => obj! {"k" => jstr("tls")},
            Rvalue::RawPtr(kind, p) => obj! {"k" => jstr("rawptr"), "kind" => jstr(format!("{:?}", kind)), "place" => self.place(p)},
            Rvalue::Cast(kind, op, t) => {
                obj! {"k" => jstr("cast"), "kind" => jstr(format!("{:?}", kind)), "op" => self.operand(op, tenv), "ty" => self.ty(*t)}
            }
            Rvalue::BinaryOp(op, ab) => {
                let (a, b) = &**ab;
                obj! {"k" => jstr("binop"), "op" => jstr(format!("{:?}", op)), "a" => self.operand(a, tenv), "b" => self.operand(b, tenv)}
            }
            Rvalue::UnaryOp(op, a) => obj! {"k" => jstr("unop"), "op" => jstr(format!("{:?}", op)), "a" => self.operand(a, tenv)},
            Rvalue::Discriminant(p) => obj! {"k" => jstr("discriminant"), "place" => self.place(p)},
            Rvalue::Aggregate(kind, ops) => {
                let opsj: Vec<J> = ops.iter().map(|o| self.operand(o, tenv)).collect();
                let kj = match &**kind {
                    AggregateKind::Array(t) => obj! {"k" => jstr("array"), "ty" => self.ty(*t)},
                    AggregateKind::Tuple => obj! {"k" => jstr("tuple")},
                    AggregateKind::Adt(did, v, args, _, active) => {
                        self.adts.insert(*did);
                        obj! {"k" => jstr("adt"), "def" => jstr(self.path(*did)), "variant" => jnum(v.as_usize()), "args" => self.gargs(args),
                              "active_field" => match active { Some(f) => jnum(f.as_usize()), None => J::Null }}
                    }
                    AggregateKind::Closure(did, args) => {
                        obj! {"k" => jstr("closure"), "def" => jstr(self.path(*did)), "parent_args" => self.gargs(args.as_closure().parent_args())}
                    }
                    AggregateKind::RawPtr(t, m) => obj! {"k" => jstr("rawptr"), "ty" => self.ty(*t), "mut" => J::Bool(m.is_mut())},
                    other => obj! {"k" => jstr("other"), "s" => jstr(format!("{:?}", other))},
                };
                obj! {"k" => jstr("aggregate"), "kind" => kj, "ops" => J::Arr(opsj)}
            }
            Rvalue::CopyForDeref(p) => obj! {"k" => jstr("use"), "op" => obj!{"k" => jstr("copy"), "place" => self.place(p)}},
            Rvalue::WrapUnsafeBinder(op, t) => obj! {"k" => jstr("wrapbinder"), "op" => self.operand(op, tenv), "ty" => self.ty(*t)},
        }
    }

    fn assert_kind(&mut self, m: &AssertKind<Operand<'tcx>>, tenv: TypingEnv<'tcx>) -> J {
        match m {
            AssertKind::BoundsCheck { len, index } => {
                obj! {"k" => jstr("bounds"), "len" => self.operand(len, tenv), "index" => self.operand(index, tenv)}
            }
            AssertKind::Overflow(op, a, b) => {
                obj! {"k" => jstr("overflow"), "op" => jstr(format!("{:?}", op)), "a" => self.operand(a, tenv), "b" => self.operand(b, tenv)}
            }
            AssertKind::OverflowNeg(a) => obj! {"k" => jstr("overflow_neg"), "a" => self.operand(a, tenv)},
            AssertKind::DivisionByZero(a) => obj! {"k" => jstr("div_zero"), "a" => self.operand(a, tenv)},
            AssertKind::RemainderByZero(a) => obj! {"k" => jstr("rem_zero"), "a" => self.operand(a, tenv)},
            other => obj! {"k" => jstr("other"), "s" => jstr(format!("{:?}", other))},
        }
    }

    fn terminator(&mut self, t: &Terminator<'tcx>, tenv: TypingEnv<'tcx>) -> J {
        let tcx = self.tcx;
        let sp = self.span(t.source_info.span);
        let unwind_j = |u: &UnwindAction| match u {
            UnwindAction::Cleanup(bb) => jnum(bb.as_usize()),
            _ => J::Null,
        };
        let mut j = match &t.kind {
            TerminatorKind::Goto { target } => obj! {"k" => jstr("goto"), "target" => jnum(target.as_usize())},
            TerminatorKind::SwitchInt { discr, targets } => {
                let mut arms = Vec::new();
                for (v, bb) in targets.iter() {
                    arms.push(J::Arr(vec![jnum(v), jnum(bb.as_usize())]));
                }
                obj! {"k" => jstr("switch"), "discr" => self.operand(discr, tenv), "arms" => J::Arr(arms), "otherwise" => jnum(targets.otherwise().as_usize())}
            }
            TerminatorKind::UnwindResume => obj! {"k" => jstr("resume")},
            TerminatorKind::UnwindTerminate(_) => obj! {"k" => jstr("terminate")},
            TerminatorKind::Return => obj! {"k" => jstr("return")},
            TerminatorKind::Unreachable => obj! {"k" => jstr("unreachable")},
            TerminatorKind::Drop { place, target, unwind, .. } => {
                obj! {"k" => jstr("drop"), "place" => self.place(place), "target" => jnum(target.as_usize()), "unwind" => unwind_j(unwind)}
            }
            TerminatorKind::Call { func, args, destination, target, unwind, .. } => {
                let mut o = vec![
                    ("k".to_string(), jstr("call")),
                    ("func".to_string(), self.operand(func, tenv)),
                    ("args".to_string(), J::Arr(args.iter().map(|a| self.operand(&a.node, tenv)).collect())),
                    ("dest".to_string(), self.place(destination)),
                    ("target".to_string(), match target { Some(bb) => jnum(bb.as_usize()), None => J::Null }),
                    ("unwind".to_string(), unwind_j(unwind)),
                ];
                if let Operand::Constant(c) = func {
                    if let ty::FnDef(did, gargs) = c.const_.ty().kind() {
                        o.push(("callee".to_string(), self.callee(*did, gargs)));
                        // try to resolve trait calls with what is known in the polymorphic body
                        if let Ok(Some(inst)) = ty::Instance::try_resolve(tcx, tenv, *did, gargs) {
                            let idid = inst.def_id();
                            let kind = match inst.def {
                                ty::InstanceKind::Item(_) => "item",
                                ty::InstanceKind::Intrinsic(_) => "intrinsic",
                                ty::InstanceKind::Virtual(..) => "virtual",
                                ty::InstanceKind::ClosureOnceShim { .. } => "closure_once_shim",
                                ty::InstanceKind::FnPtrShim(..) => "fnptr_shim",
                                ty::InstanceKind::DropGlue(..) => "drop_glue",
                                ty::InstanceKind::CloneShim(..) => "clone_shim",
                                ty::InstanceKind::ReifyShim(..) => "reify_shim",
                                _ => "other_shim",
                            };
                            let r = obj! {"kind" => jstr(kind), "fn" => self.callee(idid, inst.args)};
                            o.push(("resolved".to_string(), r));
                        }
                    }
                }
                J::Obj(o)
            }
            TerminatorKind::Assert { cond, expected, msg, target, unwind } => {
                obj! {"k" => jstr("assert"), "cond" => self.operand(cond, tenv), "expected" => J::Bool(*expected),
                      "msg" => self.assert_kind(msg, tenv), "target" => jnum(target.as_usize()), "unwind" => unwind_j(unwind)}
            }
            TerminatorKind::FalseEdge { real_target, .. } => obj! {"k" => jstr("goto"), "target" => jnum(real_target.as_usize())},
            TerminatorKind::FalseUnwind { real_target, .. } => obj! {"k" => jstr("goto"), "target" => jnum(real_target.as_usize())},
            other => obj! {"k" => jstr("other"), "s" => jstr(format!("{:?}", other))},
        };
        if let J::Obj(ref mut v) = j {
            v.push(("span".to_string(), sp));
        }
        j
    }

    fn body(&mut self, body: &Body<'tcx>, tenv: TypingEnv<'tcx>) -> J {
        let mut locals = Vec::new();
        for (_l, d) in body.local_decls.iter_enumerated() {
            locals.push(obj! {"ty" => self.ty(d.ty), "mut" => J::Bool(d.mutability.is_mut())});
        }
        let mut dbg = Vec::new();
        for v in body.var_debug_info.iter() {
            if let VarDebugInfoContents::Place(p) = &v.value {
                dbg.push(obj! {"name" => jstr(v.name.to_string()), "place" => self.place(p),
                               "arg" => match v.argument_index { Some(i) => jnum(i), None => J::Null }});
            }
        }
        let mut blocks = Vec::new();
        for (_bb, data) in body.basic_blocks.iter_enumerated() {
            let mut stmts = Vec::new();
            for st in data.statements.iter() {
                let sp = self.span(st.source_info.span);
                match &st.kind {
                    StatementKind::Assign(b) => {
                        let (p, rv) = &**b;
                        stmts.push(obj! {"k" => jstr("assign"), "place" => self.place(p), "rv" => self.rvalue(rv, tenv), "span" => sp});
                    }
                    StatementKind::SetDiscriminant { place, variant_index } => {
                        stmts.push(obj! {"k" => jstr("setdiscr"), "place" => self.place(place), "variant" => jnum(variant_index.as_usize()), "span" => sp});
                    }
                    StatementKind::Intrinsic(i) => {
                        stmts.push(obj! {"k" => jstr("intrinsic"), "s" => jstr(format!("{:?}", i)), "span" => sp});
                    }
                    StatementKind::StorageLive(l) => stmts.push(obj! {"k" => jstr("live"), "local" => jnum(l.as_usize())}),
                    StatementKind::StorageDead(l) => stmts.push(obj! {"k" => jstr("dead"), "local" => jnum(l.as_usize())}),
                    _ => {}
                }
            }
            let term = self.terminator(data.terminator(), tenv);
            blocks.push(obj! {"stmts" => J::Arr(stmts), "term" => term, "cleanup" => J::Bool(data.is_cleanup)});
        }
        obj! {"arg_count" => jnum(body.arg_count), "locals" => J::Arr(locals), "debug" => J::Arr(dbg), "blocks" => J::Arr(blocks),
              "span" => self.span(body.span)}
    }
}

struct FactsCallbacks {
    out: Option<String>,
    krate: String,
}

impl rustc_driver::Callbacks for FactsCallbacks {
    fn after_analysis<'tcx>(&mut self, _compiler: &rustc_interface::interface::Compiler, tcx: TyCtxt<'tcx>) -> Compilation {
        let Some(out) = self.out.clone() else { return Compilation::Continue };
        let name = tcx.crate_name(LOCAL_CRATE).to_string();
        if name != self.krate {
            return Compilation::Continue;
        }
        // never dump test harness builds
        if tcx.sess.opts.test {
            return Compilation::Continue;
        }
        let mut cx = Cx { tcx, adts: OrdSet::default(), traits: OrdSet::default() };
        let mut bodies = Vec::new();
        let mut consts = Vec::new();
        for &ldid in tcx.mir_keys(()).iter() {
            let did = ldid.to_def_id();
            let kind = tcx.def_kind(did);
            let tenv = TypingEnv::post_analysis(tcx, did);
            let is_fn_like = matches!(kind, DefKind::Fn | DefKind::AssocFn | DefKind::Closure | DefKind::Ctor(..));
            let mut o = vec![
                ("id".to_string(), jstr(cx.path(did))),
                ("name".to_string(), match tcx.opt_item_name(did) { Some(n) => jstr(n.to_string()), None => J::Null }),
                ("kind".to_string(), jstr(format!("{:?}", kind))),
                ("pretty".to_string(), jstr(tcx.def_path_str(did))),
                ("container".to_string(), cx.container(did)),
                ("generics".to_string(), cx.generics_of(did)),
                ("span".to_string(), cx.span(tcx.def_span(did))),
            ];
            if matches!(kind, DefKind::Fn | DefKind::AssocFn) {
                let vis = tcx.visibility(did);
                o.push(("public".to_string(), J::Bool(vis.is_public())));
                o.push(("const_fn".to_string(), J::Bool(tcx.is_const_fn(did))));
            }
            if kind == DefKind::Closure {
                o.push(("parent_fn".to_string(), jstr(cx.path(tcx.typeck_root_def_id(did)))));
            }
            if is_fn_like {
                let body = tcx.optimized_mir(did);
                o.push(("body".to_string(), cx.body(body, tenv)));
                let mut proms = Vec::new();
                for pb in tcx.promoted_mir(did).iter() {
                    proms.push(cx.body(pb, tenv));
                }
                o.push(("promoted".to_string(), J::Arr(proms)));
                bodies.push(J::Obj(o));
            } else if matches!(kind, DefKind::Const { .. } | DefKind::AssocConst { .. } | DefKind::Static { .. } | DefKind::AnonConst | DefKind::InlineConst) {
                if let Some((val, ty)) = tcx.trivial_const(did) {
                    o.push(("ty".to_string(), cx.ty(ty)));
                    if let ConstValue::Scalar(Scalar::Int(si)) = val {
                        o.push(("val".to_string(), jnum(si.to_bits_unchecked())));
                    }
                } else {
                    let body = tcx.mir_for_ctfe(did);
                    o.push(("body".to_string(), cx.body(body, tenv)));
                    let mut proms = Vec::new();
                    for pb in tcx.promoted_mir(did).iter() {
                        proms.push(cx.body(pb, tenv));
                    }
                    o.push(("promoted".to_string(), J::Arr(proms)));
                }
                consts.push(J::Obj(o));
            }
        }

        // impl table of the local crate
        let mut impls = Vec::new();
        for &impl_did in tcx.all_local_trait_impls(()).values().flatten() {
            let did = impl_did.to_def_id();
            impls.push(impl_json(&mut cx, did));
        }
        for id in tcx.hir_free_items() {
            let did = id.owner_id.to_def_id();
            if let DefKind::Impl { of_trait: false } = tcx.def_kind(did) {
                impls.push(impl_json(&mut cx, did));
            }
        }

        // local traits (with their items) + any trait mentioned
        for id in tcx.hir_free_items() {
            let did = id.owner_id.to_def_id();
            if tcx.def_kind(did) == DefKind::Trait {
                cx.traits.insert(did);
            }
        }
        let mut traits = Vec::new();
        let trait_ids: Vec<DefId> = cx.traits.order.clone();
        for did in trait_ids {
            let mut items = Vec::new();
            for it in tcx.associated_items(did).in_definition_order() {
                items.push(obj! {"name" => jstr(it.opt_name().map(|n| n.to_string()).unwrap_or_else(|| "{opaque}".to_string())), "id" => jstr(cx.path(it.def_id)),
                                 "kind" => jstr(format!("{:?}", tcx.def_kind(it.def_id))),
                                 "has_default" => J::Bool(it.defaultness(tcx).has_value())});
            }
            traits.push(obj! {"id" => jstr(cx.path(did)), "generics" => cx.generics_of(did), "items" => J::Arr(items),
                              "local" => J::Bool(did.is_local())});
        }

        // evaluated associated consts of non-generic impls of every mentioned trait
        // (e.g. RgbColor::MAX_R for the colour types of embedded-graphics-core)
        let mut impl_consts = Vec::new();
        for tdid in cx.traits.order.clone() {
            let citems: Vec<DefId> = tcx
                .associated_items(tdid)
                .in_definition_order()
                .filter(|it| matches!(tcx.def_kind(it.def_id), DefKind::AssocConst { .. }))
                .map(|it| it.def_id)
                .collect();
            if citems.is_empty() {
                continue;
            }
            for impl_did in tcx.all_impls(tdid) {
                if tcx.generics_of(impl_did).count() != 0 {
                    continue;
                }
                let self_ty = tcx.type_of(impl_did).instantiate_identity().skip_norm_wip();
                let map = tcx.impl_item_implementor_ids(impl_did);
                for ci in citems.iter() {
                    if let Some(&iid) = map.get(ci) {
                        if let Ok(ConstValue::Scalar(Scalar::Int(si))) = tcx.const_eval_poly(iid) {
                            impl_consts.push(obj! {"trait_item" => jstr(cx.path(*ci)), "name" => jstr(tcx.item_name(*ci).to_string()),
                                "self_ty" => cx.ty(self_ty), "val" => jnum(si.to_bits_unchecked())});
                        }
                    } else if tcx.defaultness(*ci).has_value() && tcx.generics_of(tdid).count() == 1 {
                        // the impl inherits the trait's default value: evaluate it for this Self
                        let args = tcx.mk_args(&[self_ty.into()]);
                        let uv = rustc_middle::mir::UnevaluatedConst { def: *ci, args, promoted: None };
                        if let Ok(ConstValue::Scalar(Scalar::Int(si))) =
                            tcx.const_eval_resolve(ty::TypingEnv::fully_monomorphized(), uv, rustc_span::DUMMY_SP)
                        {
                            impl_consts.push(obj! {"trait_item" => jstr(cx.path(*ci)), "name" => jstr(tcx.item_name(*ci).to_string()),
                                "self_ty" => cx.ty(self_ty), "val" => jnum(si.to_bits_unchecked())});
                        }
                    }
                }
            }
        }

        // ADT table: everything mentioned, transitively through field types
        let mut adts_out: BTreeMap<String, J> = BTreeMap::new();
        let mut done: HashSet<DefId> = HashSet::new();
        loop {
            let todo: Vec<DefId> = cx.adts.order.iter().copied().filter(|d| !done.contains(d)).collect();
            if todo.is_empty() {
                break;
            }
            for did in todo {
                done.insert(did);
                let adt = tcx.adt_def(did);
                let kind = if adt.is_enum() { "enum" } else if adt.is_union() { "union" } else { "struct" };
                let mut variants = Vec::new();
                for (vidx, v) in adt.variants().iter_enumerated() {
                    let discr = if adt.is_enum() {
                        let d = adt.discriminant_for_variant(tcx, vidx);
                        jnum(d.val)
                    } else {
                        jnum(0)
                    };
                    let mut fields = Vec::new();
                    for f in v.fields.iter() {
                        let fty = tcx.type_of(f.did).instantiate_identity().skip_norm_wip();
                        fields.push(obj! {"name" => jstr(f.name.to_string()), "ty" => cx.ty(fty), "public" => J::Bool(f.vis.is_public())});
                    }
                    variants.push(obj! {"name" => jstr(v.name.to_string()), "discr" => discr, "fields" => J::Arr(fields)});
                }
                let p = cx.path(did);
                adts_out.insert(
                    p.clone(),
                    obj! {"id" => jstr(p), "kind" => jstr(kind), "generics" => cx.generics_of(did), "variants" => J::Arr(variants),
                          "local" => J::Bool(did.is_local()), "pretty" => jstr(tcx.def_path_str(did))},
                );
            }
        }

        let features: Vec<J> = tcx
            .sess
            .opts
            .cg
            .target_feature
            .split(',')
            .filter(|s| !s.is_empty())
            .map(|s| jstr(s))
            .collect();
        let cfgs: Vec<J> = tcx
            .sess
            .config
            .iter()
            .filter(|(k, _)| k.as_str() == "feature" || k.as_str() == "target_pointer_width" || k.as_str() == "target_endian")
            .map(|(k, v)| J::Arr(vec![jstr(k.to_string()), match v { Some(v) => jstr(v.to_string()), None => J::Null }]))
            .collect();
        let root = obj! {
            "crate" => jstr(name),
            "cfg" => J::Arr(cfgs),
            "target_features" => J::Arr(features),
            "pointer_bits" => jnum(tcx.data_layout.pointer_size().bits()),
            "bodies" => J::Arr(bodies),
            "consts" => J::Arr(consts),
            "impls" => J::Arr(impls),
            "impl_consts" => J::Arr(impl_consts),
            "traits" => J::Arr(traits),
            "adts" => J::Arr(adts_out.into_values().collect()),
        };
        let mut s = String::new();
        root.write(&mut s);
        std::fs::write(&out, s).expect("mirfacts: cannot write fact file");
        Compilation::Continue
    }
}

fn impl_json<'tcx>(cx: &mut Cx<'tcx>, did: DefId) -> J {
    let tcx = cx.tcx;
    let self_ty = tcx.type_of(did).instantiate_identity().skip_norm_wip();
    let mut o = vec![
        ("id".to_string(), jstr(cx.path(did))),
        ("self_ty".to_string(), cx.ty(self_ty)),
        ("generics".to_string(), cx.generics_of(did)),
        ("span".to_string(), cx.span(tcx.def_span(did))),
    ];
    if let DefKind::Impl { of_trait: true } = tcx.def_kind(did) {
        let tr = tcx.impl_trait_ref(did).instantiate_identity().skip_norm_wip();
        cx.traits.insert(tr.def_id);
        o.push(("trait".to_string(), jstr(cx.path(tr.def_id))));
        o.push(("trait_args".to_string(), cx.gargs(tr.args)));
    }
    let mut items = Vec::new();
    for it in tcx.associated_items(did).in_definition_order() {
        let mut io = vec![
            ("name".to_string(), jstr(it.opt_name().map(|n| n.to_string()).unwrap_or_else(|| "{opaque}".to_string()))),
            ("id".to_string(), jstr(cx.path(it.def_id))),
            ("kind".to_string(), jstr(format!("{:?}", tcx.def_kind(it.def_id)))),
        ];
        if let Some(tid) = it.trait_item_def_id() {
            io.push(("trait_item".to_string(), jstr(cx.path(tid))));
        }
        if tcx.def_kind(it.def_id) == DefKind::AssocTy {
            let t = tcx.type_of(it.def_id).instantiate_identity().skip_norm_wip();
            io.push(("ty".to_string(), cx.ty(t)));
        }
        items.push(J::Obj(io));
    }
    o.push(("items".to_string(), J::Arr(items)));
    J::Obj(o)
}

fn main() {
    let mut args: Vec<String> = std::env::args().collect();
    // RUSTC_WORKSPACE_WRAPPER: argv[1] is the path of the real rustc
    if args.len() > 1 && (args[1].ends_with("rustc") || args[1].contains("/rustc")) {
        args.remove(1);
    }
    let out = std::env::var("MIRFACTS_OUT").ok();
    let krate = std::env::var("MIRFACTS_CRATE").unwrap_or_else(|_| "mipidsi".to_string());
    let mut cb = FactsCallbacks { out, krate };
    rustc_driver::run_compiler(&args, &mut cb);
}
