//! Models, written in Rust, of the `core` iterator-consuming methods that take a closure. They are lowered to MIR
//! by the same compiler driver as the analysed crate and interpreted like its own code, so that
//! `iter.try_for_each(|x| ..)` is analysed as the loop it stands for (`core`'s own bodies go through
//! specialisations and raw-pointer loops that the interpreter does not follow). Each function states the
//! documented behaviour of the method of the same name: items are pulled with `next()` one at a time, the closure
//! is called on each in order, and the short-circuiting ones stop at the first deciding result.
#![no_std]
#![feature(try_trait_v2)]

use core::ops::{ControlFlow, Try};

pub fn try_for_each<I, F, R>(it: &mut I, mut f: F) -> R
where
    I: Iterator,
    F: FnMut(I::Item) -> R,
    R: Try<Output = ()>,
{
    while let Some(x) = it.next() {
        match f(x).branch() {
            ControlFlow::Continue(()) => {}
            ControlFlow::Break(r) => return R::from_residual(r),
        }
    }
    R::from_output(())
}

pub fn for_each<I, F>(mut it: I, mut f: F)
where
    I: Iterator,
    F: FnMut(I::Item),
{
    while let Some(x) = it.next() {
        f(x);
    }
}

pub fn any<I, F>(it: &mut I, mut f: F) -> bool
where
    I: Iterator,
    F: FnMut(I::Item) -> bool,
{
    while let Some(x) = it.next() {
        if f(x) {
            return true;
        }
    }
    false
}

pub fn all<I, F>(it: &mut I, mut f: F) -> bool
where
    I: Iterator,
    F: FnMut(I::Item) -> bool,
{
    while let Some(x) = it.next() {
        if !f(x) {
            return false;
        }
    }
    true
}

pub fn fold<I, B, F>(mut it: I, init: B, mut f: F) -> B
where
    I: Iterator,
    F: FnMut(B, I::Item) -> B,
{
    let mut acc = init;
    while let Some(x) = it.next() {
        acc = f(acc, x);
    }
    acc
}

pub fn try_fold<I, B, F, R>(it: &mut I, init: B, mut f: F) -> R
where
    I: Iterator,
    F: FnMut(B, I::Item) -> R,
    R: Try<Output = B>,
{
    let mut acc = init;
    while let Some(x) = it.next() {
        match f(acc, x).branch() {
            ControlFlow::Continue(a) => acc = a,
            ControlFlow::Break(r) => return R::from_residual(r),
        }
    }
    R::from_output(acc)
}

pub fn find<I, P>(it: &mut I, mut p: P) -> Option<I::Item>
where
    I: Iterator,
    P: FnMut(&I::Item) -> bool,
{
    while let Some(x) = it.next() {
        if p(&x) {
            return Some(x);
        }
    }
    None
}

pub fn position<I, P>(it: &mut I, mut p: P) -> Option<usize>
where
    I: Iterator,
    P: FnMut(I::Item) -> bool,
{
    let mut i = 0;
    while let Some(x) = it.next() {
        if p(x) {
            return Some(i);
        }
        i += 1;
    }
    None
}
