#!/bin/bash
# Build the framework offline from files on disk: the rustc_private fact extractor.
set -euo pipefail
VERIF="$(cd "$(dirname "$0")/.." && pwd)"
export CARGO_NET_OFFLINE=true
cd "$VERIF/mirfacts"
cargo build --offline 2>&1 | tail -3
test -x "$VERIF/mirfacts/target/debug/mirfacts"
# warm the dependency build of /repo for the two quick configurations (facts are cached by source hash)
"$VERIF/bin/extract" host+batch >/dev/null
"$VERIF/bin/extract" host-batch >/dev/null
"$VERIF/bin/extract" prelude-host >/dev/null
echo "setup ok"
